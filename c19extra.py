"""Thorough-only extras for C19: Miri (UB, data races, a sixth 'build' to compare with) and
ThreadSanitizer on an instrumented std, valgrind memcheck as a seventh configuration."""
import sanit


def run(drv, seed):
    extra, viol, inc = {}, [], []
    for fn in (lambda: sanit.miri(drv, "C19", seed, nproc=12, per=40, many_seeds=4), lambda: sanit.tsan(drv, seed),
               lambda: sanit.memcheck(drv, "C19", seed + 1000, nproc=16, per=8000)):
        e, v, i = fn()
        extra.update(e)
        viol += v
        inc += i
    return extra, viol, inc
