"""Thorough-only extras for C19 (Miri, ThreadSanitizer)."""


def run(root, env, builds, build, seed, scale, inconclusive, violations_sink):
    return {}
