//! Counting allocator: thread-local current/peak heap bytes, used by C01's "does not allocate
//! without bound" clause.

use std::alloc::{GlobalAlloc, Layout, System};
use std::cell::Cell;

pub struct Counting;

thread_local! {
    static CUR: Cell<usize> = const { Cell::new(0) };
    static PEAK: Cell<usize> = const { Cell::new(0) };
    static TOTAL: Cell<usize> = const { Cell::new(0) };
}

#[inline]
fn add(n: usize) {
    let _ = CUR.try_with(|c| {
        let v = c.get().wrapping_add(n);
        c.set(v);
        let _ = PEAK.try_with(|p| {
            if v > p.get() && v < usize::MAX / 2 {
                p.set(v);
            }
        });
    });
    let _ = TOTAL.try_with(|t| t.set(t.get().wrapping_add(n)));
}

#[inline]
fn sub(n: usize) {
    let _ = CUR.try_with(|c| c.set(c.get().wrapping_sub(n)));
}

unsafe impl GlobalAlloc for Counting {
    unsafe fn alloc(&self, l: Layout) -> *mut u8 {
        let p = System.alloc(l);
        if !p.is_null() {
            add(l.size());
        }
        p
    }
    unsafe fn dealloc(&self, p: *mut u8, l: Layout) {
        System.dealloc(p, l);
        sub(l.size());
    }
    unsafe fn realloc(&self, p: *mut u8, l: Layout, new: usize) -> *mut u8 {
        let q = System.realloc(p, l, new);
        if !q.is_null() {
            if new >= l.size() {
                add(new - l.size());
            } else {
                sub(l.size() - new);
            }
        }
        q
    }
    unsafe fn alloc_zeroed(&self, l: Layout) -> *mut u8 {
        let p = System.alloc_zeroed(l);
        if !p.is_null() {
            add(l.size());
        }
        p
    }
}

/// Start a measurement window on this thread; returns the baseline.
pub fn window_start() -> usize {
    let cur = CUR.with(Cell::get);
    PEAK.with(|p| p.set(cur));
    TOTAL.with(|t| t.set(0));
    cur
}

/// Peak bytes above the baseline and total bytes requested since `window_start`.
pub fn window_end(base: usize) -> (usize, usize) {
    let peak = PEAK.with(Cell::get);
    (peak.saturating_sub(base), TOTAL.with(Cell::get))
}
