//! Accumulated observations of one run (merged over worker threads) and violation records.

use crate::gen::Src;
use crate::json::{hex, J};
use crate::oracle::Finding;
use crate::run::{Exec, Outcome};
use crate::view::{hash128, View};
use std::collections::{BTreeMap, HashSet};

#[derive(Clone, Debug)]
pub struct Violation {
    pub sig: String,
    pub rule: String,
    pub msg: String,
    pub inputs: Vec<String>,
    pub count: u64,
}

#[derive(Default)]
pub struct Stats {
    pub evaluations: u64,
    pub cases: u64,
    pub nontrivial: HashSet<u128>,
    pub samples: Vec<J>,
    pub by_src: BTreeMap<String, u64>,
    pub tokens_checked: u64,
    pub errors_checked: u64,
    pub token_types: HashSet<u16>,
    pub error_kinds: HashSet<u16>,
    pub state_keys: HashSet<u64>,
    pub modes: HashSet<u16>,
    pub checkpoints: u64,
    pub rollbacks: u64,
    pub clears: u64,
    pub errors_under_checkpoint: u64,
    pub rollbacks_after_error: u64,
    pub tokens_rolled_back: u64,
    pub histories: HashSet<String>,
    pub skipped_panic: u64,
    pub budget_hits: u64,
    pub max_mode_depth: usize,
    pub max_stack_used: usize,
    pub violations: BTreeMap<String, Violation>,
    pub counters: BTreeMap<String, i128>,
    pub maxima: BTreeMap<String, f64>,
    pub harness_errors: Vec<String>,
}

pub const MAX_SAMPLES: usize = 8;

impl Stats {
    pub fn count(&mut self, key: &str, n: i128) {
        *self.counters.entry(key.to_string()).or_insert(0) += n;
    }
    pub fn maxf(&mut self, key: &str, v: f64) {
        let e = self.maxima.entry(key.to_string()).or_insert(f64::MIN);
        if v > *e {
            *e = v;
        }
    }
    pub fn src(&mut self, s: Src) {
        *self.by_src.entry(format!("{s:?}")).or_insert(0) += 1;
    }

    /// Record what the hooks saw during one execution.
    pub fn observe_exec(&mut self, ex: &Exec) {
        self.evaluations += 1;
        let r = &ex.report;
        for k in &r.state_keys {
            self.state_keys.insert(*k);
        }
        for m in &r.modes_seen {
            self.modes.insert(*m);
        }
        self.checkpoints += r.checkpoints;
        self.rollbacks += r.rollbacks;
        self.clears += r.clears_live;
        self.errors_under_checkpoint += r.errors_under_checkpoint;
        self.rollbacks_after_error += r.rollbacks_after_error;
        self.tokens_rolled_back += r.tokens_rolled_back;
        if !r.decisions.is_empty() && self.histories.len() < 100_000 {
            self.histories.insert(r.decisions.clone());
        }
        self.max_mode_depth = self.max_mode_depth.max(r.max_mode_depth);
        self.max_stack_used = self.max_stack_used.max(ex.stack_used);
        match &ex.outcome {
            Outcome::Panic(_) => self.skipped_panic += 1,
            Outcome::Budget(_) => self.budget_hits += 1,
            _ => {}
        }
    }

    pub fn observe_view(&mut self, v: &View) {
        self.tokens_checked += v.toks.len() as u64;
        self.errors_checked += v.errors().len() as u64;
        for t in &v.toks {
            self.token_types.insert(t.ty as u16);
        }
        for e in v.errors() {
            self.error_kinds.insert(e.error_kind() as u16);
        }
    }

    /// Count a distinct non-trivial case; keeps the first few as samples.
    pub fn nontrivial(&mut self, key: &[u8], sample: impl FnOnce() -> J) {
        if self.nontrivial.insert(hash128(key)) && self.samples.len() < MAX_SAMPLES {
            self.samples.push(sample());
        }
    }

    pub fn violation(&mut self, f: &Finding, inputs: &[&str]) {
        let e = self.violations.entry(f.sig.clone()).or_insert_with(|| Violation {
            sig: f.sig.clone(),
            rule: f.rule.to_string(),
            msg: f.msg.clone(),
            inputs: inputs.iter().map(|s| (*s).to_string()).collect(),
            count: 0,
        });
        e.count += 1;
        // keep the shortest witness
        let cur: usize = e.inputs.iter().map(String::len).sum();
        let new: usize = inputs.iter().map(|s| s.len()).sum();
        if new < cur {
            e.inputs = inputs.iter().map(|s| (*s).to_string()).collect();
            e.msg = f.msg.clone();
        }
    }

    pub fn merge(&mut self, o: Stats) {
        self.evaluations += o.evaluations;
        self.cases += o.cases;
        self.nontrivial.extend(o.nontrivial);
        for s in o.samples {
            if self.samples.len() < MAX_SAMPLES {
                self.samples.push(s);
            }
        }
        for (k, v) in o.by_src {
            *self.by_src.entry(k).or_insert(0) += v;
        }
        self.tokens_checked += o.tokens_checked;
        self.errors_checked += o.errors_checked;
        self.token_types.extend(o.token_types);
        self.error_kinds.extend(o.error_kinds);
        self.state_keys.extend(o.state_keys);
        self.modes.extend(o.modes);
        self.checkpoints += o.checkpoints;
        self.rollbacks += o.rollbacks;
        self.clears += o.clears;
        self.errors_under_checkpoint += o.errors_under_checkpoint;
        self.rollbacks_after_error += o.rollbacks_after_error;
        self.tokens_rolled_back += o.tokens_rolled_back;
        self.histories.extend(o.histories);
        self.skipped_panic += o.skipped_panic;
        self.budget_hits += o.budget_hits;
        self.max_mode_depth = self.max_mode_depth.max(o.max_mode_depth);
        self.max_stack_used = self.max_stack_used.max(o.max_stack_used);
        for (k, v) in o.violations {
            match self.violations.get_mut(&k) {
                None => {
                    self.violations.insert(k, v);
                }
                Some(e) => {
                    e.count += v.count;
                    let cur: usize = e.inputs.iter().map(String::len).sum();
                    let new: usize = v.inputs.iter().map(String::len).sum();
                    if new < cur {
                        e.inputs = v.inputs;
                        e.msg = v.msg;
                    }
                }
            }
        }
        for (k, v) in o.counters {
            *self.counters.entry(k).or_insert(0) += v;
        }
        for (k, v) in o.maxima {
            let e = self.maxima.entry(k).or_insert(f64::MIN);
            if v > *e {
                *e = v;
            }
        }
        self.harness_errors.extend(o.harness_errors);
    }

    pub fn to_json(&self) -> J {
        let mut j = J::obj();
        j.set("evaluations", self.evaluations);
        j.set("cases", self.cases);
        j.set("distinct_nontrivial", self.nontrivial.len());
        j.set("samples", J::Arr(self.samples.clone()));
        let mut bs = J::obj();
        for (k, v) in &self.by_src {
            bs.set(k.clone(), *v);
        }
        j.set("inputs_by_generator", bs);
        j.set("tokens_checked", self.tokens_checked);
        j.set("errors_checked", self.errors_checked);
        j.set("token_types_seen", self.token_types.len());
        j.set("error_kinds_seen", self.error_kinds.len());
        j.set("lexer_states_seen", self.state_keys.len());
        j.set("modes_seen", self.modes.len());
        j.set("checkpoints", self.checkpoints);
        j.set("rollbacks", self.rollbacks);
        j.set("checkpoint_clears", self.clears);
        j.set("errors_under_checkpoint", self.errors_under_checkpoint);
        j.set("rollbacks_after_error", self.rollbacks_after_error);
        j.set("tokens_rolled_back", self.tokens_rolled_back);
        j.set("decision_histories_seen", self.histories.len());
        j.set("skipped_panic", self.skipped_panic);
        j.set("budget_hits", self.budget_hits);
        j.set("max_mode_depth", self.max_mode_depth);
        j.set("max_native_stack_bytes", self.max_stack_used);
        let mut c = J::obj();
        for (k, v) in &self.counters {
            c.set(k.clone(), J::Int(*v));
        }
        j.set("counters", c);
        let mut m = J::obj();
        for (k, v) in &self.maxima {
            m.set(k.clone(), *v);
        }
        j.set("maxima", m);
        let mut vs = Vec::new();
        for v in self.violations.values() {
            let mut o = J::obj();
            o.set("sig", &v.sig);
            o.set("rule", &v.rule);
            o.set("msg", &v.msg);
            o.set("count", v.count);
            o.set("inputs", J::Arr(v.inputs.iter().map(|s| J::Str(s.clone())).collect()));
            o.set("inputs_hex", J::Arr(v.inputs.iter().map(|s| J::Str(hex(s))).collect()));
            vs.push(o);
        }
        j.set("violations", J::Arr(vs));
        j.set(
            "harness_errors",
            J::Arr(self.harness_errors.iter().take(10).map(|s| J::Str(s.clone())).collect()),
        );
        j
    }
}

pub fn clip(s: &str, n: usize) -> String {
    if s.len() <= n {
        s.to_string()
    } else {
        let mut cut = n;
        while !s.is_char_boundary(cut) {
            cut -= 1;
        }
        format!("{}…(+{} bytes)", &s[..cut], s.len() - cut)
    }
}
