//! Minimal JSON value + writer (no external crates).

use std::collections::BTreeMap;
use std::fmt::Write;

#[derive(Clone, Debug)]
pub enum J {
    Null,
    Bool(bool),
    Int(i128),
    Float(f64),
    Str(String),
    Arr(Vec<J>),
    Obj(BTreeMap<String, J>),
}

impl J {
    pub fn obj() -> J {
        J::Obj(BTreeMap::new())
    }
    pub fn set<K: Into<String>, V: Into<J>>(&mut self, k: K, v: V) -> &mut J {
        if let J::Obj(m) = self {
            m.insert(k.into(), v.into());
        }
        self
    }
    pub fn with<K: Into<String>, V: Into<J>>(mut self, k: K, v: V) -> J {
        self.set(k, v);
        self
    }
    pub fn to_string(&self) -> String {
        let mut s = String::new();
        self.write(&mut s);
        s
    }
    fn write(&self, out: &mut String) {
        match self {
            J::Null => out.push_str("null"),
            J::Bool(b) => out.push_str(if *b { "true" } else { "false" }),
            J::Int(i) => {
                let _ = write!(out, "{i}");
            }
            J::Float(f) => {
                if f.is_finite() {
                    let _ = write!(out, "{f:?}");
                } else {
                    out.push_str("null");
                }
            }
            J::Str(s) => write_str(out, s),
            J::Arr(a) => {
                out.push('[');
                for (i, v) in a.iter().enumerate() {
                    if i > 0 {
                        out.push(',');
                    }
                    v.write(out);
                }
                out.push(']');
            }
            J::Obj(m) => {
                out.push('{');
                for (i, (k, v)) in m.iter().enumerate() {
                    if i > 0 {
                        out.push(',');
                    }
                    write_str(out, k);
                    out.push(':');
                    v.write(out);
                }
                out.push('}');
            }
        }
    }
}

fn write_str(out: &mut String, s: &str) {
    out.push('"');
    for c in s.chars() {
        match c {
            '"' => out.push_str("\\\""),
            '\\' => out.push_str("\\\\"),
            '\n' => out.push_str("\\n"),
            '\r' => out.push_str("\\r"),
            '\t' => out.push_str("\\t"),
            c if (c as u32) < 0x20
                || ((c as u32) >= 0x7f && (c as u32) <= 0xa0)
                || c == '\u{2028}'
                || c == '\u{2029}'
                || c == '\u{feff}'
                || c == '\u{1680}'
                || ((c as u32) >= 0x2000 && (c as u32) <= 0x200f) =>
            {
                let _ = write!(out, "\\u{:04x}", c as u32);
            }
            c => out.push(c),
        }
    }
    out.push('"');
}

impl From<bool> for J {
    fn from(v: bool) -> J {
        J::Bool(v)
    }
}
impl From<&str> for J {
    fn from(v: &str) -> J {
        J::Str(v.to_string())
    }
}
impl From<String> for J {
    fn from(v: String) -> J {
        J::Str(v)
    }
}
impl From<&String> for J {
    fn from(v: &String) -> J {
        J::Str(v.clone())
    }
}
impl From<f64> for J {
    fn from(v: f64) -> J {
        J::Float(v)
    }
}
macro_rules! from_int {
    ($($t:ty),*) => {$(impl From<$t> for J { fn from(v: $t) -> J { J::Int(v as i128) } })*};
}
from_int!(u8, u16, u32, u64, usize, i32, i64, u128);
impl<T: Into<J>> From<Vec<T>> for J {
    fn from(v: Vec<T>) -> J {
        J::Arr(v.into_iter().map(Into::into).collect())
    }
}
impl<T: Into<J>> From<Option<T>> for J {
    fn from(v: Option<T>) -> J {
        v.map_or(J::Null, Into::into)
    }
}

pub fn hex(s: &str) -> String {
    let mut o = String::with_capacity(s.len() * 2);
    for b in s.bytes() {
        let _ = write!(o, "{b:02x}");
    }
    o
}
