//! Flat, checked view of a `LexResult` used by all oracles, and the canonical dump used by the
//! differential properties.

use sas_lexer::error::ErrorInfo;
use sas_lexer::{LexResult, Payload, TokenChannel, TokenType};

#[derive(Clone, Copy, Debug)]
pub struct Tok {
    pub idx: u32,
    pub ty: TokenType,
    pub ch: TokenChannel,
    pub b0: usize,
    /// start of the next token (own start for the last token)
    pub b1: usize,
    pub c0: u32,
    /// 1-based start line as stored
    pub line: u32,
    pub payload: Payload,
}

pub struct View<'a> {
    pub src: &'a str,
    pub toks: Vec<Tok>,
    pub res: &'a LexResult,
}

impl<'a> View<'a> {
    pub fn new(src: &'a str, res: &'a LexResult) -> View<'a> {
        let infos: Vec<_> = res.buffer.iter_tokens_infos().collect();
        let mut toks = Vec::with_capacity(infos.len());
        for (i, (idx, ti)) in infos.iter().enumerate() {
            let b0 = ti.byte_offset().get() as usize;
            let b1 = infos
                .get(i + 1)
                .map_or(b0, |(_, n)| n.byte_offset().get() as usize);
            toks.push(Tok {
                idx: idx.get(),
                ty: ti.token_type(),
                ch: ti.channel(),
                b0,
                b1,
                c0: ti.start().get(),
                line: ti.line(),
                payload: ti.payload(),
            });
        }
        View { src, toks, res }
    }

    /// Raw text of token `i`; empty string when the range is not a valid slice.
    pub fn text(&self, i: usize) -> &'a str {
        let t = &self.toks[i];
        if t.b0 <= t.b1 {
            self.src.get(t.b0..t.b1).unwrap_or("")
        } else {
            ""
        }
    }

    pub fn errors(&self) -> &'a [ErrorInfo] {
        &self.res.errors
    }

    /// Errors that name token `i` as their last token
    pub fn errors_naming(&self, i: usize) -> impl Iterator<Item = &'a ErrorInfo> + '_ {
        let idx = self.toks[i].idx;
        self.res
            .errors
            .iter()
            .filter(move |e| e.last_token().map(|t| t.get()) == Some(idx))
    }

    pub fn payload_str(&self, i: usize) -> Option<&'a str> {
        match self.toks[i].payload {
            Payload::StringLiteral(a, b) => self.res.buffer.get_string_literal(a, b).ok(),
            _ => None,
        }
    }
}

pub fn is_default(ch: TokenChannel) -> bool {
    ch == TokenChannel::DEFAULT
}

// ---------------------------------------------------------------------------------------------
// canonical dump

fn put_u32(o: &mut Vec<u8>, v: u32) {
    o.extend_from_slice(&v.to_le_bytes());
}
fn put_u64(o: &mut Vec<u8>, v: u64) {
    o.extend_from_slice(&v.to_le_bytes());
}

pub fn put_payload(o: &mut Vec<u8>, p: Payload, lit_shift: u32) {
    match p {
        Payload::None => o.push(0),
        Payload::Integer(v) => {
            o.push(1);
            put_u64(o, v);
        }
        Payload::Float(f) => {
            o.push(2);
            put_u64(o, f.to_bits());
        }
        Payload::StringLiteral(a, b) => {
            o.push(3);
            put_u32(o, a.wrapping_add(lit_shift));
            put_u32(o, b.wrapping_add(lit_shift));
        }
    }
}

/// Options that let metamorphic oracles express "equal up to a shift".
#[derive(Clone, Copy, Default)]
pub struct CanonOpts {
    /// drop `MacroSep` tokens and renumber (C18)
    pub strip_macro_sep: bool,
    /// fold ASCII case of the literal buffer (C16)
    pub fold_literal_case: bool,
}

/// Canonical, build-independent byte rendering of a result.
pub fn canon(src: &str, res: &LexResult, opts: CanonOpts) -> Vec<u8> {
    let _ = src;
    let mut o = Vec::with_capacity(res.buffer.token_count() as usize * 24 + 64);
    // index map for strip mode
    let infos: Vec<_> = res.buffer.iter_tokens_infos().collect();
    let mut map: Vec<u32> = Vec::with_capacity(infos.len());
    let mut n = 0u32;
    for (_, ti) in &infos {
        if opts.strip_macro_sep && ti.token_type() == TokenType::MacroSep {
            // no error may name a MacroSep as its last token (the keyword / label token follows
            // it immediately): such an index has no counterpart in the plain build
            map.push(u32::MAX - 2);
        } else {
            map.push(n);
            n += 1;
        }
    }
    put_u32(&mut o, n);
    for (_, ti) in &infos {
        if opts.strip_macro_sep && ti.token_type() == TokenType::MacroSep {
            continue;
        }
        o.extend_from_slice(&(ti.token_type() as u16).to_le_bytes());
        o.push(ti.channel() as u8);
        put_u32(&mut o, ti.byte_offset().get());
        put_u32(&mut o, ti.start().get());
        put_u32(&mut o, ti.line());
        put_payload(&mut o, ti.payload(), 0);
    }
    put_u32(&mut o, res.buffer.line_count());
    let lit = res.buffer.string_literals_buffer();
    put_u32(&mut o, lit.len() as u32);
    if opts.fold_literal_case {
        o.extend(lit.bytes().map(|b| b.to_ascii_lowercase()));
    } else {
        o.extend_from_slice(lit.as_bytes());
    }
    put_u32(&mut o, res.errors.len() as u32);
    for e in &res.errors {
        o.extend_from_slice(&(e.error_kind() as u16).to_le_bytes());
        put_u32(&mut o, e.at_byte_offset());
        put_u32(&mut o, e.at_char_offset());
        put_u32(&mut o, e.on_line());
        put_u32(&mut o, e.at_column());
        match e.last_token() {
            None => put_u32(&mut o, u32::MAX),
            Some(t) => put_u32(
                &mut o,
                map.get(t.get() as usize).copied().unwrap_or(u32::MAX - 1),
            ),
        }
    }
    o
}

/// 128-bit hash (two independent 64-bit FNV-style lanes; deterministic across builds).
pub fn hash128(bytes: &[u8]) -> u128 {
    let mut a: u64 = 0xcbf2_9ce4_8422_2325;
    let mut b: u64 = 0x8422_2325_cbf2_9ce4;
    for &x in bytes {
        a ^= u64::from(x);
        a = a.wrapping_mul(0x0000_0100_0000_01B3);
        b = b.wrapping_add(u64::from(x)).wrapping_mul(0x9E37_79B9_7F4A_7C15);
        b ^= b >> 29;
    }
    a ^= a >> 32;
    a = a.wrapping_mul(0xD6E8_FEB8_6659_FD93);
    a ^= a >> 32;
    (u128::from(a) << 64) | u128::from(b)
}

/// Human-readable rendering of the token stream, for replay output and evidence samples.
pub fn render(src: &str, res: &LexResult, max_tokens: usize) -> String {
    let v = View::new(src, res);
    let mut s = String::new();
    for (i, t) in v.toks.iter().enumerate() {
        if i >= max_tokens {
            s.push_str(" …");
            break;
        }
        if i > 0 {
            s.push(' ');
        }
        let chn = match t.ch {
            TokenChannel::DEFAULT => "",
            TokenChannel::HIDDEN => "~",
            TokenChannel::COMMENT => "#",
        };
        let txt = v.text(i);
        let txt: String = txt.chars().take(24).collect();
        s.push_str(&format!("{chn}{:?}@{}{:?}", t.ty, t.b0, txt));
        match t.payload {
            Payload::None => {}
            p => s.push_str(&format!("{p:?}")),
        }
    }
    if !res.errors.is_empty() {
        s.push_str(" || errors:");
        for e in res.errors.iter().take(12) {
            s.push_str(&format!(
                " {:?}@{}(last={:?})",
                e.error_kind(),
                e.at_byte_offset(),
                e.last_token().map(|t| t.get())
            ));
        }
    }
    s
}
