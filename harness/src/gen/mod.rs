//! Workload generators (DESIGN §3).

pub mod grammar;
pub mod mutate;
pub mod soup;
pub mod targeted;

use crate::rng::Rng;
use mutate::Corpus;

#[derive(Clone, Copy, Debug, PartialEq, Eq)]
pub enum Tier {
    Quick,
    Thorough,
}

impl Tier {
    pub fn name(self) -> &'static str {
        match self {
            Tier::Quick => "quick",
            Tier::Thorough => "thorough",
        }
    }
    pub fn gcfg(self) -> grammar::Cfg {
        match self {
            Tier::Quick => grammar::Cfg::quick(),
            Tier::Thorough => grammar::Cfg::thorough(),
        }
    }
}

/// Which generator produced an input (reported in the evidence)
#[derive(Clone, Copy, Debug, PartialEq, Eq, Hash, PartialOrd, Ord)]
pub enum Src {
    Corpus,
    CorpusMut,
    Soup,
    MacroSoup,
    Grammar,
    GrammarMut,
    GrammarTrunc,
    Short,
    Family,
    Targeted,
    Guided,
}

/// One draw from the general pool: corpus, soup, grammar programs and mutations of them.
pub fn general(r: &mut Rng, corpus: &Corpus, tier: Tier) -> (String, Src) {
    let frags = if tier == Tier::Quick { 16 } else { 40 };
    match r.below(100) {
        0..=29 => (soup::soup(r, frags), Src::Soup),
        30..=44 => (soup::macro_soup(r, frags / 2 + 2), Src::MacroSoup),
        45..=54 => {
            if corpus.small.is_empty() {
                (soup::soup(r, frags), Src::Soup)
            } else {
                (r.pick_ref(&corpus.small).clone(), Src::Corpus)
            }
        }
        55..=66 => {
            if corpus.small.is_empty() {
                (soup::soup(r, frags), Src::Soup)
            } else {
                let mut s = r.pick_ref(&corpus.small).clone();
                let n = r.range(1, 3);
                for _ in 0..n {
                    s = mutate::mutate_once(&s, r);
                }
                if r.chance(1, 6) {
                    let other = r.pick_ref(&corpus.small).clone();
                    s = mutate::splice(&s, &other, r);
                }
                (s, Src::CorpusMut)
            }
        }
        67..=78 => (grammar::gen_program(r, tier.gcfg()).s, Src::Grammar),
        79..=88 => {
            let p = grammar::gen_program(r, tier.gcfg());
            (mutate::truncate_at(&p.s, r), Src::GrammarTrunc)
        }
        _ => {
            let mut s = grammar::gen_program(r, tier.gcfg()).s;
            let n = r.range(1, 3);
            for _ in 0..n {
                s = mutate::mutate_once(&s, r);
            }
            (s, Src::GrammarMut)
        }
    }
}

/// G7 scaling families: `p(n)` = n copies of a unit (with optional prefix/suffix).
pub const FAMILIES: &[(&str, &str, &str, &str)] = &[
    // (name, prefix, unit, suffix)
    ("mcall-open", "", "%m(", ""),
    ("mcall-1char-args", "%m(", "a ,", "z);\ndata a; x = 1; run;\n"),
    ("mcall-empty-call-list", "%m(", "%a(),", "z);\n%put done;\n"),
    ("mcall-named-1char", "%m(", "a=1,", "b);\nx = 1;\n"),
    ("dquote", "", "\"", ""),
    ("squote", "", "'", ""),
    ("ccomment-open", "", "/*", ""),
    ("amp", "", "&", ""),
    ("amp-name", "", "&a", ""),
    ("do", "", "%do;", ""),
    ("do-end", "", "%do;%end;", ""),
    ("str-open-paren", "", "%str(%(", ""),
    ("assign-stmt", "", "a=1;", ""),
    ("sysfunc-open", "", "%sysfunc(", ""),
    ("x-comment", "", "x /**/", ""),
    ("datalines", "", "datalines;\n1 2\n;\n", ""),
    ("lf", "", "\n", ""),
    ("eval-open", "", "%eval(", ""),
    ("lparen-in-eval", "%eval(", "(", ""),
    ("lparen-in-call", "%m(", "(", ""),
    ("rparen", "", ")", ""),
    ("macro-def", "", "%macro m;", ""),
    ("macro-def-mend", "", "%macro m;%mend;", ""),
    ("if-then", "", "%if 1 %then ", ""),
    ("let", "", "%let a=b;", ""),
    ("star-comment", "", "* c;", ""),
    ("star-in-macro", "%macro m;", "* c %x;", ""),
    ("percent", "", "%", ""),
    ("percent-name", "", "%m ", ""),
    ("label", "", "%l:", ""),
    ("macro-comment", "", "%* c;", ""),
    ("str-call", "", "%str(a)", ""),
    ("nested-strexpr", "", "\"%m(", ""),
    ("arg-names", "%m(", "a=1,", ")"),
    ("arg-name-ws", "%m(", "a ", ")"),
    ("semi", "", ";", ""),
    ("dollar", "", "$a", ""),
    ("digits", "", "1", ""),
    ("hexdigits", "1", "f", ""),
    ("e-exponent", "", "1e", ""),
    ("ws", "", " ", ""),
    ("catchall", "", "\u{1}", ""),
    ("multibyte", "", "é", ""),
    ("and-mnemonic", "%eval(", "a and ", ")"),
    ("eval-ops", "%eval(", "1+", "1)"),
    ("do-iter", "", "%do i=1 %to 2;", ""),
    ("do-while", "", "%do %while(1);", ""),
    ("local", "", "%local a b;", ""),
    ("put", "", "%put a;", ""),
    ("scan", "", "%scan(a,1)", ""),
    ("substr-open", "", "%substr(", ""),
    ("datalines4-semis", "datalines4;\n", ";;;", ""),
    ("quote-pairs", "'", "''", "'"),
    ("dquote-pairs", "\"", "\"\"", "\""),
    ("str-escapes", "%str(", "%%", ")"),
    ("amp-run-name", "", "&&&&&&&&", "a"),
    ("comment-stars", "/*", "*", "*/"),
    ("mvar-dots", "&a", ".", ""),
    ("mvar-chain", "", "&a&b", ""),
    ("name-expr", "%let ", "a&b", "=1;"),
    ("stat-opts", "%macro m / ", "a=b ", ";"),
    ("then-else", "%if 1 ", "%then %else ", ";"),
    ("macro-in-arg", "%m(", "%n(", ""),
    ("to-by", "%do i=1 ", "%to 2 %by 1 ", ";"),
    // runs that produce only hidden / comment tokens (look-behind scans over them)
    ("str-empty", "", "%str()", ""),
    ("nrstr-empty", "x ", "%nrstr()", ";"),
    ("comment-run", "", "/**/", ""),
    ("ws-catchall-run", "", " \\", ""),
    ("str-empty-then-stmt", "", "%str()%str() ", "%let a=1;"),
    ("hidden-run-in-eval", "%eval(1", " /**/", "+1)"),
    // long ampersand runs that are not macro variables, in every text scanner
    ("amp-run-in-str", "%str(a", "&", ")"),
    ("amp-run-in-nrstr", "%nrstr(a", "&", ")"),
    ("amp-run-in-call", "%m(a", "&", ")"),
    ("amp-run-in-let", "%let a=b", "&", ";"),
    ("amp-run-in-dq", "\"a", "&", "\""),
    ("amp-run-in-opts", "%macro m / a", "&", ";"),
    ("amp-run-in-eval", "%eval(a", "&", " 1)"),
    ("percent-run-in-str", "%str(a", "% ", ")"),
    ("percent-run-in-eval", "%eval(a", "% ", ")"),
    ("mnemonic-letters-in-eval", "%eval(", "e", ")"),
    ("name-parts", "%let ", "a&b.", "=1;"),
    ("datalines-kw-run", ";", "datalines ", ";"),
    ("dollar-run", "", "$", ""),
    ("dollar-name-run", "", "$a1", ""),
    ("label-run", "x ", "%l: ", ""),
    ("stmt-no-semi", "", "%put a %let b=1 ", ""),
];

pub fn family(idx: usize, n: usize) -> String {
    let (_, pre, unit, suf) = FAMILIES[idx % FAMILIES.len()];
    let mut s = String::with_capacity(pre.len() + unit.len() * n + suf.len());
    s.push_str(pre);
    for _ in 0..n {
        s.push_str(unit);
    }
    s.push_str(suf);
    s
}
