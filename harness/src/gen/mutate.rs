//! G1 seed corpus and G4 mutators.

use crate::rng::Rng;
use std::path::{Path, PathBuf};

pub fn verif_root() -> PathBuf {
    std::env::var_os("VERIF_ROOT").map_or_else(|| PathBuf::from("/verif"), PathBuf::from)
}

pub fn repo_root() -> PathBuf {
    std::env::var_os("VERIF_REPO").map_or_else(|| PathBuf::from("/repo"), PathBuf::from)
}

/// Scrape Rust string literals out of a source file (used on the repository's inline tests,
/// which are the maintainers' own collection of interesting inputs).
pub fn scrape_rust_strings(src: &str) -> Vec<String> {
    let b = src.as_bytes();
    let mut out = Vec::new();
    let mut i = 0;
    while i < b.len() {
        match b[i] {
            b'/' if i + 1 < b.len() && b[i + 1] == b'/' => {
                while i < b.len() && b[i] != b'\n' {
                    i += 1;
                }
            }
            b'\'' => {
                // char literal or lifetime: skip conservatively
                if i + 2 < b.len() && b[i + 1] == b'\\' {
                    i += 2;
                    while i < b.len() && b[i] != b'\'' {
                        i += 1;
                    }
                    i += 1;
                } else if i + 2 < b.len() && b[i + 2] == b'\'' {
                    i += 3;
                } else {
                    // multi-byte char literal or lifetime
                    let rest = &src[i + 1..];
                    let mut it = rest.char_indices();
                    if let (Some((_, _)), Some((p, '\''))) = (it.next(), it.next()) {
                        i += 1 + p + 1;
                    } else {
                        i += 1;
                    }
                }
            }
            b'r' if i + 1 < b.len() && (b[i + 1] == b'"' || b[i + 1] == b'#') => {
                let mut j = i + 1;
                let mut hashes = 0;
                while j < b.len() && b[j] == b'#' {
                    hashes += 1;
                    j += 1;
                }
                if j < b.len() && b[j] == b'"' {
                    let start = j + 1;
                    let closer: String = std::iter::once('"').chain(std::iter::repeat('#').take(hashes)).collect();
                    if let Some(p) = src[start..].find(&closer) {
                        out.push(src[start..start + p].to_string());
                        i = start + p + closer.len();
                        continue;
                    }
                }
                i += 1;
            }
            b'"' => {
                let mut s = String::new();
                let mut j = i + 1;
                let mut ok = false;
                let chars: Vec<(usize, char)> = src[j..].char_indices().collect();
                let mut k = 0;
                while k < chars.len() {
                    let (p, c) = chars[k];
                    match c {
                        '"' => {
                            j += p + 1;
                            ok = true;
                            break;
                        }
                        '\\' => {
                            k += 1;
                            if k >= chars.len() {
                                break;
                            }
                            match chars[k].1 {
                                'n' => s.push('\n'),
                                'r' => s.push('\r'),
                                't' => s.push('\t'),
                                '0' => s.push('\0'),
                                '\\' => s.push('\\'),
                                '"' => s.push('"'),
                                '\'' => s.push('\''),
                                '\n' => {
                                    // line continuation: skip leading whitespace
                                    while k + 1 < chars.len() && chars[k + 1].1.is_whitespace() {
                                        k += 1;
                                    }
                                }
                                'u' => {
                                    // \u{...}
                                    let mut hex = String::new();
                                    k += 1;
                                    while k + 1 < chars.len() && chars[k + 1].1 != '}' {
                                        k += 1;
                                        hex.push(chars[k].1);
                                    }
                                    k += 1;
                                    if let Some(c) = u32::from_str_radix(&hex, 16).ok().and_then(char::from_u32) {
                                        s.push(c);
                                    }
                                }
                                'x' => {
                                    let h: String = chars.get(k + 1..k + 3).map_or(String::new(), |x| x.iter().map(|y| y.1).collect());
                                    k += 2;
                                    if let Some(c) = u32::from_str_radix(&h, 16).ok().and_then(char::from_u32) {
                                        s.push(c);
                                    }
                                }
                                other => s.push(other),
                            }
                        }
                        c => s.push(c),
                    }
                    k += 1;
                }
                if ok {
                    out.push(s);
                    i = j;
                    continue;
                }
                i += 1;
            }
            _ => i += 1,
        }
    }
    out
}

fn read_dir_files(dir: &Path, ext: &str, out: &mut Vec<String>) {
    let Ok(rd) = std::fs::read_dir(dir) else { return };
    let mut paths: Vec<_> = rd.filter_map(Result::ok).map(|e| e.path()).collect();
    paths.sort();
    for p in paths {
        if p.extension().and_then(|e| e.to_str()) == Some(ext) {
            if let Ok(s) = std::fs::read_to_string(&p) {
                out.push(s);
            }
        }
    }
}

pub struct Corpus {
    /// short hand-written seeds + scraped inline test strings
    pub small: Vec<String>,
    /// real sample programs (tens of kB)
    pub large: Vec<String>,
}

/// Load the seed corpus. Missing files only shrink it.
pub fn load_corpus() -> Corpus {
    let mut small = Vec::new();
    let root = verif_root();
    if let Ok(s) = std::fs::read_to_string(root.join("corpus/seeds.txt")) {
        for part in s.split("\n@@@@\n") {
            if !part.is_empty() {
                small.push(part.to_string());
            }
        }
    }
    let repo = repo_root();
    if let Ok(s) = std::fs::read_to_string(repo.join("crates/sas-lexer/src/lexer/tests/test_inline_strings.rs")) {
        let mut seen = std::collections::HashSet::new();
        for lit in scrape_rust_strings(&s) {
            if !lit.is_empty() && lit.len() < 2000 && seen.insert(lit.clone()) {
                small.push(lit);
            }
        }
    }
    let mut large = Vec::new();
    read_dir_files(&repo.join("crates/sas-lexer/src/lexer/tests/samples"), "sas", &mut large);
    read_dir_files(&repo.join("tests/samples"), "sas", &mut large);
    large.dedup();
    Corpus { small, large }
}

pub fn char_boundaries(s: &str) -> Vec<usize> {
    let mut v: Vec<usize> = s.char_indices().map(|(i, _)| i).collect();
    v.push(s.len());
    v
}

pub fn truncate_at(s: &str, r: &mut Rng) -> String {
    let cb = char_boundaries(s);
    s[..cb[r.below(cb.len())]].to_string()
}

const INSERTS: &[&str] = &[
    "\n", " ", "\r\n", "\t", "/*c*/", "/*\n*/", "é", "日", "😀", "\u{a0}", "\u{2028}", ";", "'", "\"",
    "(", ")", ",", "=", "%", "&", "*", "/", ".", "%m", "&v", "\0", "\u{feff}", "x", "1", "e",
    "%*c;", "%str(", "%eval(", "\"\"", "''", "%'", "%%", "%)", "&&", ";;;;",
];

pub fn mutate_once(s: &str, r: &mut Rng) -> String {
    let cb = char_boundaries(s);
    let pos = cb[r.below(cb.len())];
    match r.below(7) {
        0 => {
            // delete one char
            if pos < s.len() {
                let c = s[pos..].chars().next().map_or(0, char::len_utf8);
                format!("{}{}", &s[..pos], &s[pos + c..])
            } else {
                s.to_string()
            }
        }
        1 | 2 => format!("{}{}{}", &s[..pos], r.pick(INSERTS), &s[pos..]),
        3 => {
            // replace one char
            if pos < s.len() {
                let c = s[pos..].chars().next().map_or(0, char::len_utf8);
                format!("{}{}{}", &s[..pos], r.pick(INSERTS), &s[pos + c..])
            } else {
                s.to_string()
            }
        }
        4 => s[..pos].to_string(),
        5 => s[pos..].to_string(),
        _ => {
            // duplicate a span
            let pos2 = cb[r.below(cb.len())];
            let (a, b) = (pos.min(pos2), pos.max(pos2));
            let times = r.range(1, 3);
            let mut o = s[..b].to_string();
            for _ in 0..times {
                o.push_str(&s[a..b]);
            }
            o.push_str(&s[b..]);
            o
        }
    }
}

pub fn splice(a: &str, b: &str, r: &mut Rng) -> String {
    let ca = char_boundaries(a);
    let cb = char_boundaries(b);
    format!("{}{}", &a[..ca[r.below(ca.len())]], &b[cb[r.below(cb.len())]..])
}

/// Insert `what` at every char boundary in turn (bounded), calling `f` for each variant.
pub fn insert_everywhere(s: &str, what: &str, max_variants: usize, r: &mut Rng, mut f: impl FnMut(String)) {
    let cb = char_boundaries(s);
    if cb.len() <= max_variants {
        for &p in &cb {
            f(format!("{}{}{}", &s[..p], what, &s[p..]));
        }
    } else {
        for _ in 0..max_variants {
            let p = cb[r.below(cb.len())];
            f(format!("{}{}{}", &s[..p], what, &s[p..]));
        }
    }
}
