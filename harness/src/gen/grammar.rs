//! G3: well-formed programs from the construct grammar of DESIGN §7.3, generated together with
//! ground truth (delimiter positions, masked positions, operator/operand spans, literal values,
//! insignificant spans, statement boundaries, single-delimiter deletions).

use crate::rng::Rng;
use sas_lexer::error::ErrorKind;
use sas_lexer::TokenType;
use std::collections::BTreeSet;

#[derive(Clone, Debug)]
pub enum Mark {
    /// a one-char delimiter token of this type starts at pos; hidden = HIDDEN channel
    Delim { pos: usize, ty: TokenType, hidden: bool },
    /// an operator token of this type spans [pos, pos+len)
    Op { pos: usize, len: usize, ty: TokenType },
    /// an IntegerLiteral with this value spans [pos, pos+len)
    Int { pos: usize, len: usize, value: u64 },
    /// a FloatLiteral spans [pos, pos+len) (float-mode expressions)
    Float { pos: usize, len: usize, bits: u64 },
    /// no COMMA/ASSIGN/SEMI token starts at pos (masked delimiter); ctx names why
    Masked { pos: usize, ctx: &'static str, depth: usize },
    /// a paren inside a value argument: covered by a MacroString, no paren token starts here
    ParenInText { pos: usize },
    /// every token overlapping [start, end) is on the HIDDEN or COMMENT channel
    Insig { start: usize, end: usize, ctx: &'static str },
    /// a quoted literal token spans exactly [start, end) with this type and unquoted value
    Lit { start: usize, end: usize, ty: TokenType, unq: Option<String> },
    /// text placed directly inside %str/%nrstr( … ): tokens covering it; `unq` is the expected
    /// payload when the segment is one MacroString token
    StrText { start: usize, end: usize, unq: Option<String> },
    /// an open-code numeric literal
    Num { start: usize, end: usize },
    /// a closed statement boundary (just after a consumed ';' at top level)
    Boundary { pos: usize },
    /// the parentheses of a call / parameter list
    Call { lp: usize, rp: usize },
    /// a word operand of a macro expression: one MacroString token spans exactly [pos, pos+len)
    /// (no operator token inside a word)
    Text { pos: usize, len: usize },
}

#[derive(Clone, Debug)]
pub struct Deletion {
    /// byte position of the mandatory delimiter character
    pub pos: usize,
    /// end of the element preceding the delimiter (before optional insignificant text)
    pub prev_end: usize,
    pub error: ErrorKind,
    pub token: TokenType,
    pub hidden: bool,
    pub construct: &'static str,
    /// insignificant text sits next to the delimiter
    pub padded: bool,
    /// explicit position (original coordinates) of the character where the error is expected;
    /// None = first significant character after `prev_end`
    pub expect_at: Option<usize>,
}

#[derive(Clone, Debug, Default)]
pub struct Prog {
    pub s: String,
    pub marks: Vec<Mark>,
    pub deletions: Vec<Deletion>,
    pub kinds: BTreeSet<&'static str>,
    pub nest_pairs: BTreeSet<(&'static str, &'static str)>,
    pub max_depth: usize,
}

#[derive(Clone, Copy, Debug)]
pub struct Cfg {
    pub max_depth: usize,
    pub max_len: usize,
    /// number of top-level statements
    pub stmts: (usize, usize),
    /// probability (percent) of placing insignificant text at an optional position
    pub pad_pct: usize,
    /// allow non-ASCII text in names/strings/comments
    pub unicode: bool,
}

impl Cfg {
    pub fn quick() -> Cfg {
        Cfg { max_depth: 4, max_len: 600, stmts: (1, 5), pad_pct: 35, unicode: true }
    }
    pub fn thorough() -> Cfg {
        Cfg { max_depth: 7, max_len: 4000, stmts: (1, 12), pad_pct: 35, unicode: true }
    }
}

const WORDS: &[&str] = &[
    "a", "b", "x", "y", "abc", "val", "name", "tmp", "x1", "col_2", "ds", "lib", "foo", "bar", "k",
    "data", "set", "run", "var", "w", "zz", "Abc", "X", "Zip", "Zone", "allvar", "nulldataset", "corresponding", "Q",
    "abcdefghijklmnopqrstuvwxyzabcdefg", "v234567890123456789012345678901234567890123456789012345678901234",
];
const UWORDS: &[&str] = &["é1", "дата", "名前", "ünï", "café", "année", "schluß", "x_数据", "größe", "z9é", "v𝒳1"];
const MNAMES: &[&str] = &[
    "m1", "mac_a", "u2x", "do_it", "calc1", "m_2", "util9", "x_y", "Zap", "zed_1", "Q", "mbcdefghijklmnopqrstuvwxyzabcdefg", "_n", "_sfx1", "__", "größe", "макрос", "счёт_1", "mé", "m数据",
    "n234567890123456789012345678901234567890123456789012345678901234",
];
const FUNCS: &[&str] = &["sum", "max", "cats", "putn", "inputn", "today", "substr"];
const LABELS: &[&str] = &[
    "lbl1", "out_1", "skip2", "l_x", "Zlab", "étiq1", "lbl_ü", "lbcdefghijklmnopqrstuvwxyzabcdefg", "l2345678901234567890123456789012",
    "l234567890123456789012345678901234567890123456789012345678901234",
];

const MNEMONIC_OPS: &[(&str, TokenType)] = &[
    ("eq", TokenType::KwEQ),
    ("ne", TokenType::KwNE),
    ("lt", TokenType::KwLT),
    ("le", TokenType::KwLE),
    ("gt", TokenType::KwGT),
    ("ge", TokenType::KwGE),
    ("and", TokenType::KwAND),
    ("or", TokenType::KwOR),
    ("in", TokenType::KwIN),
    ("EQ", TokenType::KwEQ),
    ("And", TokenType::KwAND),
    ("oR", TokenType::KwOR),
    ("Ge", TokenType::KwGE),
];
const SYMBOL_OPS: &[(&str, TokenType)] = &[
    ("+", TokenType::PLUS),
    ("-", TokenType::MINUS),
    ("*", TokenType::STAR),
    ("/", TokenType::FSLASH),
    ("**", TokenType::STAR2),
    ("=", TokenType::ASSIGN),
    ("^=", TokenType::NE),
    ("~=", TokenType::NE),
    ("¬=", TokenType::NE),
    ("<", TokenType::LT),
    ("<=", TokenType::LE),
    (">", TokenType::GT),
    (">=", TokenType::GE),
    ("|", TokenType::PIPE),
    ("#", TokenType::HASH),
];

struct G<'r> {
    r: &'r mut Rng,
    p: Prog,
    cfg: Cfg,
    /// construct nesting path (kinds)
    path: Vec<&'static str>,
    /// the last default-channel token is a consumed ';' (or nothing yet)
    last_semi: bool,
    /// nesting of %macro definitions
    in_macro: usize,
    /// we are inside a string expression (no nested double quotes, keeps things readable)
    in_dq: usize,
    /// inside call arguments / expressions (boundaries are not top level)
    top_level: bool,
    /// positions of the currently open call parentheses
    open_parens: Vec<usize>,
    /// indices of comma deletions waiting for their call's closing paren
    pending_comma_del: Vec<(usize, usize)>,
}

impl G<'_> {
    fn pos(&self) -> usize {
        self.p.s.len()
    }
    fn put(&mut self, s: &str) {
        self.p.s.push_str(s);
    }
    fn enter(&mut self, kind: &'static str) {
        self.p.kinds.insert(kind);
        if let Some(outer) = self.path.last() {
            self.p.nest_pairs.insert((outer, kind));
        }
        self.path.push(kind);
        self.p.max_depth = self.p.max_depth.max(self.path.len());
    }
    fn leave(&mut self) {
        self.path.pop();
    }
    fn room(&self) -> bool {
        self.path.len() < self.cfg.max_depth && self.p.s.len() < self.cfg.max_len
    }
    fn word(&mut self) -> &'static str {
        if self.cfg.unicode && self.r.chance(1, 12) {
            self.r.pick(UWORDS)
        } else {
            self.r.pick(WORDS)
        }
    }
    /// a macro name for `%macro` / `%mend` / `%copy`: the definition-name scanner is ASCII-only by
    /// design (a non-ASCII letter ends the name there), calls accept any XID identifier
    fn def_name(&mut self) -> &'static str {
        loop {
            let n = self.r.pick(MNAMES);
            if n.is_ascii() {
                return n;
            }
        }
    }
    /// a name for places where SAS wants an identifier (argument / parameter / variable names):
    /// mostly ASCII, now and then a name whose first or later letters are not (the lexer accepts
    /// every XID identifier; byte and character lengths differ there)
    fn ascii_word(&mut self) -> &'static str {
        if self.cfg.unicode && self.r.chance(1, 16) {
            self.r.pick(UWORDS)
        } else {
            self.r.pick(WORDS)
        }
    }

    /// optional insignificant blank / LF / C comment. `comments`: C comments allowed here.
    /// Returns true if something was placed.
    fn pad(&mut self, ctx: &'static str, comments: bool) -> bool {
        if !self.r.chance(self.cfg.pad_pct, 100) {
            return false;
        }
        let start = self.pos();
        let n = self.r.range(1, 2);
        for _ in 0..n {
            match self.r.below(if comments { 6 } else { 4 }) {
                0 | 1 => {
                    // any Unicode white space is insignificant where a blank is
                    if self.cfg.unicode && self.r.chance(1, 6) {
                        { let t__ = self.r.pick(&["\u{a0}", "\u{3000}", "\u{2003}", "\t", "\r\n", "\u{c}", "\u{b}", "\u{85}", "\u{2028}", "\u{1680}", "\r"]); self.put(t__) }
                    } else {
                        self.put(" ")
                    }
                }
                2 => self.put("\n"),
                3 => self.put("  "),
                4 => {
                    let c = self.r.pick(&["/* c */", "/* c */", "/**/", "/*/ c */", "/*/*/", "/*// x //*/", "/* ' \" ( */", "/***/"]);
                    self.put(c)
                }
                _ => {
                    if self.cfg.unicode {
                        self.put("/*é\n*/")
                    } else {
                        self.put("/*\n*/")
                    }
                }
            }
        }
        let end = self.pos();
        self.p.marks.push(Mark::Insig { start, end, ctx });
        true
    }

    /// mandatory separator blank (significant or not, no mark)
    fn blank(&mut self) {
        if self.r.chance(1, 6) {
            self.put("\n");
        } else {
            self.put(" ");
        }
    }

    // ----------------------------------------------------------------------------------------
    // leaves

    fn int_text(&mut self) -> (String, u64) {
        // zero-padded spellings longer than any u64 digit count
        if self.r.chance(1, 40) {
            let v = self.r.below(1000) as u64;
            let width = self.r.pick(&[20usize, 21, 22, 30]);
            return (format!("{v:0width$}"), v);
        }
        let v: u64 = match self.r.below(6) {
            0 => 0,
            1 => 1,
            2 => self.r.below(100) as u64,
            3 => self.r.below(100_000) as u64,
            4 => 4_294_967_296 + self.r.below(1000) as u64,
            _ => u64::MAX - self.r.below(3) as u64,
        };
        (v.to_string(), v)
    }

    fn mref(&mut self) {
        self.p.kinds.insert("mref");
        match self.r.below(9) {
            0 | 1 => {
                let w = self.word();
                self.put(&format!("&{w}"));
            }
            2 => {
                let w = self.word();
                self.put(&format!("&{w}."));
            }
            3 => {
                let w = self.word();
                self.put(&format!("&&{w}"));
            }
            4 => {
                let (a, b) = (self.word(), self.word());
                self.put(&format!("&&{a}&{b}."));
            }
            5 => {
                let w = self.word();
                self.put(&format!("&&&{w}"));
            }
            6 => {
                let w = self.word();
                self.put(&format!("&{w}"));
            }
            7 => {
                // double dot: terminator + literal dot
                let (a, b) = (self.word(), self.ascii_word());
                self.put(&format!("&{a}..{b}"));
            }
            _ => {
                let (a, b) = (self.word(), self.ascii_word());
                self.put(&format!("&&{a}&{b}..x"));
            }
        }
    }

    /// macro variable reference in running text: may be followed by an ampersand that is plain text
    fn mref_text(&mut self) {
        self.mref();
        if self.r.chance(1, 6) && !self.p.s.ends_with('.') {
            let t = self.r.pick(&["& ", "&1", "&&9 ", "& x"]);
            self.put(t);
        }
    }

    fn squote(&mut self) {
        self.p.kinds.insert("squote");
        let start = self.pos();
        let (sfx, ty): (&str, TokenType) = match self.r.below(12) {
            0 => ("d", TokenType::DateLiteral),
            1 => ("dt", TokenType::DateTimeLiteral),
            2 => ("t", TokenType::TimeLiteral),
            3 => ("n", TokenType::NameLiteral),
            4 => ("b", TokenType::BitTestingLiteral),
            5 => ("x", TokenType::HexStringLiteral),
            6 => ("DT", TokenType::DateTimeLiteral),
            _ => ("", TokenType::StringLiteral),
        };
        let mut body = String::new();
        let mut unq = String::new();
        let mut escaped = false;
        if ty == TokenType::HexStringLiteral {
            let n = self.r.below(4);
            for i in 0..n {
                let b = self.r.below(256) as u8;
                let h = if self.r.chance(1, 2) { format!("{b:02x}") } else { format!("{b:02X}") };
                body.push_str(&h);
                if i + 1 < n && self.r.chance(1, 4) {
                    body.push(',');
                }
                unq.push(char::from(b));
            }
            self.put(&format!("'{body}'{sfx}"));
            let end = self.pos();
            self.p.marks.push(Mark::Lit { start, end, ty, unq: Some(unq) });
            return;
        }
        let n = self.r.below(5);
        for _ in 0..n {
            match self.r.below(10) {
                0 | 1 => {
                    body.push_str("''");
                    unq.push('\'');
                    escaped = true;
                }
                2 => {
                    body.push_str(", ");
                    unq.push_str(", ");
                }
                3 => {
                    body.push(';');
                    unq.push(';');
                }
                4 => {
                    body.push_str("\"");
                    unq.push('"');
                }
                5 => {
                    body.push_str("&x %y");
                    unq.push_str("&x %y");
                }
                6 if self.cfg.unicode => {
                    body.push_str("é日");
                    unq.push_str("é日");
                }
                7 => {
                    body.push('\n');
                    unq.push('\n');
                }
                _ => {
                    let w = self.word();
                    body.push_str(w);
                    unq.push_str(w);
                }
            }
        }
        self.put(&format!("'{body}'{sfx}"));
        let end = self.pos();
        self.p.marks.push(Mark::Lit { start, end, ty, unq: if escaped { Some(unq) } else { None } });
    }

    /// double-quoted string; may contain macro references/calls (then it is a string expression)
    fn dquote(&mut self, allow_macro: bool) {
        self.p.kinds.insert("dquote");
        self.enter("dquote");
        self.in_dq += 1;
        let start = self.pos();
        self.put("\"");
        let n = self.r.below(5);
        let mut plain = true;
        let mut unq = String::new();
        let mut escaped = false;
        for _ in 0..n {
            match self.r.below(10) {
                0 | 1 => {
                    self.put("\"\"");
                    unq.push('"');
                    escaped = true;
                }
                2 => {
                    self.put(", ;=");
                    unq.push_str(", ;=");
                }
                3 => {
                    self.put("'");
                    unq.push('\'');
                }
                4 | 5 if allow_macro && self.room() => {
                    plain = false;
                    if self.r.chance(1, 2) {
                        self.mref();
                    } else if self.r.chance(1, 2) {
                        self.mcall_p();
                    } else {
                        self.fncall();
                    }
                }
                6 if self.cfg.unicode => {
                    self.put("ж😀");
                    unq.push_str("ж😀");
                }
                7 => {
                    self.put("\n");
                    unq.push('\n');
                }
                _ => {
                    let w = self.word();
                    self.put(w);
                    unq.push_str(w);
                    self.put(" ");
                    unq.push(' ');
                }
            }
        }
        self.put("\"");
        let (sfx, ty, ety): (&str, TokenType, TokenType) = match self.r.below(14) {
            0 => ("d", TokenType::DateLiteral, TokenType::DateLiteralExprEnd),
            1 => ("dt", TokenType::DateTimeLiteral, TokenType::DateTimeLiteralExprEnd),
            2 => ("t", TokenType::TimeLiteral, TokenType::TimeLiteralExprEnd),
            3 => ("n", TokenType::NameLiteral, TokenType::NameLiteralExprEnd),
            4 => ("b", TokenType::BitTestingLiteral, TokenType::BitTestingLiteralExprEnd),
            _ => ("", TokenType::StringLiteral, TokenType::StringExprEnd),
        };
        self.put(sfx);
        let end = self.pos();
        let _ = ety;
        if plain {
            self.p.marks.push(Mark::Lit { start, end, ty, unq: if escaped { Some(unq) } else { None } });
        }
        self.in_dq -= 1;
        self.leave();
    }

    // ----------------------------------------------------------------------------------------
    // macro calls and values

    /// text usable inside a value argument (no top-level comma / '=' / parens / quotes)
    fn value_word(&mut self) {
        match self.r.below(8) {
            0 => {
                let (t, _) = self.int_text();
                self.put(&t);
            }
            1 => {
                let w = self.word();
                self.put(w);
                self.put(" ");
                let w = self.word();
                self.put(w);
            }
            2 => self.put("a.b"),
            3 => self.put("x-1"),
            _ => {
                let w = self.word();
                self.put(w);
            }
        }
    }

    /// one sub-token of a value; returns a label of what was placed (for C13 evidence)
    fn value_part(&mut self, depth: usize) -> &'static str {
        let choice = if self.room() { self.r.below(14) } else { self.r.below(4) };
        match choice {
            0..=3 => {
                self.value_word();
                "word"
            }
            4 => {
                self.mref_text();
                "mref"
            }
            5 => {
                self.squote();
                "squote"
            }
            6 if self.in_dq == 0 => {
                self.dquote(true);
                "dquote"
            }
            7 => {
                self.mcall_p();
                "mcall"
            }
            8 => {
                self.fncall();
                "fncall"
            }
            9 => {
                self.strq();
                "strq"
            }
            10 | 11 if depth < 4 => {
                self.paren_group(depth + 1);
                "paren"
            }
            12 => {
                // C comment inside a value is a comment token
                let start = self.pos();
                self.put("/* c, = ; */");
                let end = self.pos();
                self.p.marks.push(Mark::Insig { start, end, ctx: "comment-in-value" });
                // its , = ; are masked too
                "ccomment"
            }
            _ => {
                self.value_word();
                "word"
            }
        }
    }

    /// '(' value ((','|';'|'=') value)* ')' inside a value argument: everything is text
    fn paren_group(&mut self, depth: usize) {
        self.p.kinds.insert("paren-in-value");
        let p = self.pos();
        self.put("(");
        self.p.marks.push(Mark::ParenInText { pos: p });
        let n = self.r.range(1, 3);
        let mut prev = "open";
        for i in 0..n {
            if i > 0 || self.r.chance(1, 3) {
                let pos = self.pos();
                let d = self.r.pick(&[",", ";", "=", ", ", "="]);
                self.put(d);
                let _ = prev;
                self.p.marks.push(Mark::Masked { pos, ctx: "paren", depth });
            }
            if matches!(prev, "squote" | "dquote") {
                self.put(" ");
            }
            prev = self.value_part(depth);
            if self.r.chance(1, 3) {
                // masked delimiter directly after a sub-token
                let pos = self.pos();
                let d = self.r.pick(&[",", ";", "="]);
                self.put(d);
                self.p.marks.push(Mark::Masked { pos, ctx: prev, depth });
            }
        }
        let p = self.pos();
        self.put(")");
        self.p.marks.push(Mark::ParenInText { pos: p });
    }

    /// a value argument: 1..3 parts; never a top-level ',' or '='; does not start with blank
    fn value(&mut self) {
        let n = self.r.range(1, 3);
        let mut prev = "";
        for _ in 0..n {
            // a quoted literal directly followed by a letter or another quote would change its
            // suffix / merge with the next literal: keep a blank in between
            if matches!(prev, "squote" | "dquote") {
                self.put(" ");
            }
            prev = self.value_part(0);
        }
    }

    /// %str( … ) / %nrstr( … )
    fn strq(&mut self) {
        self.enter("strq");
        let nr = self.r.chance(1, 3);
        let kw_pos = self.pos();
        self.put(if nr { "%nrstr" } else { "%str" });
        let kw_end = self.pos();
        let padded = self.pad("kw-lparen", true);
        let lp = self.pos();
        self.put("(");
        self.p.marks.push(Mark::Delim { pos: lp, ty: TokenType::LPAREN, hidden: true });
        self.p.deletions.push(Deletion {
            pos: lp,
            prev_end: kw_end,
            error: ErrorKind::MissingExpectedLParen,
            token: TokenType::LPAREN,
            hidden: true,
            construct: "strq",
            padded,
            expect_at: None,
        });
        let _ = kw_pos;
        // text: plain chars, %-escapes, balanced inner parens, masked delimiters
        let start = self.pos();
        let mut unq = String::new();
        let mut escaped = false;
        let mut amp_last = false;
        let n = self.r.below(6);
        for _ in 0..n {
            match self.r.below(13) {
                0 => {
                    let e = self.r.pick(&["%'", "%\"", "%%", "%(", "%)"]);
                    self.put(e);
                    unq.push_str(&e[1..]);
                    escaped = true;
                }
                1 => {
                    let pos = self.pos();
                    let d = self.r.pick(&[",", ";", "="]);
                    self.put(d);
                    unq.push_str(d);
                    self.p.marks.push(Mark::Masked { pos, ctx: "strq", depth: 0 });
                }
                2 => {
                    self.put("(a,b)");
                    unq.push_str("(a,b)");
                    let l = self.pos();
                    self.p.marks.push(Mark::Masked { pos: l - 3, ctx: "strq-paren", depth: 1 });
                }
                3 => {
                    self.put(" ");
                    unq.push(' ');
                }
                4 => {
                    self.put("/");
                    unq.push('/');
                }
                5 => {
                    self.put("\n");
                    unq.push('\n');
                }
                6 if nr => {
                    self.put("&x %y");
                    unq.push_str("&x %y");
                }
                7 if self.cfg.unicode => {
                    self.put("é");
                    unq.push('é');
                }
                8 => {
                    self.put("%");
                    self.put(" ");
                    unq.push_str("% ");
                }
                9 => {
                    // a lone '&' (not a macro variable) followed by a paren group, a %-quoted
                    // paren, a blank, or the closing paren
                    let t = self.r.pick(&["p&(y)", "q& ", "r&%)", "s&&(", "t&"]);
                    if t == "s&&(" {
                        self.put("s&&(z)");
                        unq.push_str("s&&(z)");
                    } else if t == "t&" {
                        amp_last = true;
                    } else {
                        self.put(t);
                        if t == "r&%)" {
                            unq.push_str("r&)");
                            escaped = true;
                        } else {
                            unq.push_str(t);
                        }
                    }
                }
                _ => {
                    let w = self.word();
                    self.put(w);
                    unq.push_str(w);
                }
            }
        }
        if amp_last {
            self.put("t&");
            unq.push_str("t&");
        }
        let end = self.pos();
        if end > start {
            self.p.marks.push(Mark::StrText { start, end, unq: if escaped { Some(unq) } else { None } });
        }
        let rp = self.pos();
        self.put(")");
        self.p.marks.push(Mark::Delim { pos: rp, ty: TokenType::RPAREN, hidden: true });
        self.leave();
    }

    /// user macro call with parentheses
    fn mcall_p(&mut self) {
        self.enter("mcall");
        let name = self.r.pick(MNAMES);
        self.put("%");
        self.put(name);
        self.pad("name-lparen", true);
        let lp = self.pos();
        self.put("(");
        self.open_parens.push(lp);
        self.p.marks.push(Mark::Delim { pos: lp, ty: TokenType::LPAREN, hidden: false });
        let nargs = self.r.below(5);
        let saved_top = self.top_level;
        self.top_level = false;
        for i in 0..nargs {
            self.pad("before-arg", true);
            if self.r.chance(2, 5) {
                // named argument
                self.p.kinds.insert("named-arg");
                if self.r.chance(1, 4) {
                    // the name itself is (or ends in) a macro expression
                    self.p.kinds.insert("named-arg-computed-name");
                    let mn = self.r.pick(MNAMES);
                    let w = self.ascii_word();
                    let t = match self.r.below(10) {
                        0 => "&x".to_string(),
                        1 => format!("{w}&x"),
                        2 => format!("%{mn}"),
                        3 => format!("{w}%{mn}"),
                        4 => format!("%{mn}()"),
                        5 => format!("&x.{w}"),
                        // the name ends with the dot that terminates a macro variable reference
                        6 => "&x.".to_string(),
                        7 => format!("{w}_&x."),
                        8 => "&&p&x..".to_string(),
                        _ => format!("&x.{w}&y."),
                    };
                    self.put(&t);
                } else {
                    let w = self.ascii_word();
                    self.put(w);
                }
                self.pad("before-assign", true);
                let eq = self.pos();
                self.put("=");
                self.p.marks.push(Mark::Delim { pos: eq, ty: TokenType::ASSIGN, hidden: false });
                self.pad("after-assign", true);
                if self.r.chance(4, 5) {
                    self.value();
                }
            } else if self.r.chance(9, 10) {
                self.p.kinds.insert("positional-arg");
                self.value();
            }
            if i + 1 < nargs {
                let c = self.pos();
                self.put(",");
                self.p.marks.push(Mark::Delim { pos: c, ty: TokenType::COMMA, hidden: false });
            }
        }
        self.close_paren();
        self.top_level = saved_top;
        self.leave();
    }

    fn builtin_open(&mut self, kw: &str, construct: &'static str) -> usize {
        self.put(kw);
        let kw_end = self.pos();
        let padded = self.pad("kw-lparen", true);
        let lp = self.pos();
        self.put("(");
        self.open_parens.push(lp);
        self.p.marks.push(Mark::Delim { pos: lp, ty: TokenType::LPAREN, hidden: false });
        self.p.deletions.push(Deletion {
            pos: lp,
            prev_end: kw_end,
            error: ErrorKind::MissingExpectedLParen,
            token: TokenType::LPAREN,
            hidden: false,
            construct,
            padded,
            expect_at: None,
        });
        lp
    }

    fn close_paren(&mut self) {
        let rp = self.pos();
        self.put(")");
        self.p.marks.push(Mark::Delim { pos: rp, ty: TokenType::RPAREN, hidden: false });
        let depth = self.open_parens.len();
        if let Some(lp) = self.open_parens.pop() {
            self.p.marks.push(Mark::Call { lp, rp });
        }
        // comma deletions of this call expect their error at this closing paren
        while let Some(&(di, d)) = self.pending_comma_del.last() {
            if d == depth {
                self.p.deletions[di].expect_at = Some(rp);
                self.pending_comma_del.pop();
            } else {
                break;
            }
        }
    }

    fn comma(&mut self) -> usize {
        let c = self.pos();
        self.put(",");
        self.p.marks.push(Mark::Delim { pos: c, ty: TokenType::COMMA, hidden: false });
        c
    }

    /// built-in macro function call
    fn fncall(&mut self) {
        self.enter("fncall");
        let saved_top = self.top_level;
        self.top_level = false;
        match self.r.below(9) {
            0 | 1 => {
                self.p.kinds.insert("%eval");
                let kw = if self.r.chance(1, 4) { "%EVAL" } else { "%eval" };
                self.builtin_open(kw, "%eval");
                self.pad("after-lparen", true);
                self.expr(false, ExprEnd::Paren);
                self.close_paren();
            }
            2 => {
                self.p.kinds.insert("%sysevalf");
                self.builtin_open("%sysevalf", "%sysevalf");
                self.pad("after-lparen", true);
                self.expr(true, ExprEnd::CommaOrParen);
                if self.r.chance(1, 3) {
                    self.comma();
                    self.pad("after-comma", true);
                    { let t__ = self.r.pick(&["ceil", "floor", "boolean", "integer"]); self.put(t__) };
                }
                self.close_paren();
            }
            3 => {
                self.p.kinds.insert("%scan");
                let kw = self.r.pick(&["%scan", "%qscan", "%kscan", "%qkscan", "%Scan"]);
                self.builtin_open(kw, "%scan");
                self.pad("after-lparen", true);
                let v_start = self.pos();
                self.value();
                let v_end = self.pos();
                let c = self.comma();
                let third = self.r.chance(1, 2);
                self.pad("after-comma", true);
                self.expr(false, ExprEnd::CommaOrParen);
                if third {
                    self.comma();
                    self.pad("after-comma", true);
                    self.value();
                } else {
                    let _ = v_start;
                    self.p.deletions.push(Deletion {
                        pos: c,
                        prev_end: v_end,
                        error: ErrorKind::MissingExpectedComma,
                        token: TokenType::COMMA,
                        hidden: false,
                        construct: "%scan-comma",
                        padded: false,
                        expect_at: None, // patched when the call is closed
                    });
                    let di = self.p.deletions.len() - 1;
                    self.pending_comma_del.push((di, self.open_parens.len()));
                }
                self.close_paren();
            }
            4 => {
                self.p.kinds.insert("%substr");
                let kw = self.r.pick(&["%substr", "%qsubstr", "%ksubstr", "%qksubstr"]);
                self.builtin_open(kw, "%substr");
                self.pad("after-lparen", true);
                self.value();
                let v_end = self.pos();
                let c = self.comma();
                let third = self.r.chance(1, 2);
                self.pad("after-comma", true);
                self.expr(false, ExprEnd::CommaOrParen);
                if third {
                    self.comma();
                    self.pad("after-comma", true);
                    self.expr(false, ExprEnd::Paren);
                } else {
                    self.p.deletions.push(Deletion {
                        pos: c,
                        prev_end: v_end,
                        error: ErrorKind::MissingExpectedComma,
                        token: TokenType::COMMA,
                        hidden: false,
                        construct: "%substr-comma",
                        padded: false,
                        expect_at: None, // patched when the call is closed
                    });
                    let di = self.p.deletions.len() - 1;
                    self.pending_comma_del.push((di, self.open_parens.len()));
                }
                self.close_paren();
            }
            5 => {
                // one-argument, comma-masking built-ins
                self.p.kinds.insert("builtin-1arg");
                let kw = self.r.pick(&[
                    "%upcase", "%length", "%index", "%bquote", "%superq", "%quote", "%nrbquote",
                    "%unquote", "%qupcase", "%symexist", "%sysget", "%qlowcase", "%nrquote",
                    "%klength", "%sysmexecname", "%sysprod",
                ]);
                self.builtin_open(kw, "builtin-1arg");
                self.pad("after-lparen", true);
                self.value();
                if self.r.chance(1, 2) {
                    // a top-level comma here is text, not a delimiter
                    let pos = self.pos();
                    self.put(",");
                    self.p.marks.push(Mark::Masked { pos, ctx: "1arg-builtin", depth: 0 });
                    self.value();
                }
                self.close_paren();
            }
            6 => {
                // multi-argument plain built-ins
                self.p.kinds.insert("builtin-nargs");
                let kw = self.r.pick(&[
                    "%lowcase", "%cmpres", "%left", "%trim", "%datatyp", "%qcmpres", "%qleft", "%qtrim",
                    "%kleft", "%ktrim",
                ]);
                self.builtin_open(kw, "builtin-nargs");
                self.pad("after-lparen", true);
                self.value();
                let more = self.r.below(3);
                for _ in 0..more {
                    self.comma();
                    self.pad("after-comma", true);
                    self.value();
                }
                self.close_paren();
            }
            7 => {
                // named-argument built-ins
                self.p.kinds.insert("builtin-named");
                let kw = self.r.pick(&["%verify", "%kverify", "%compstor", "%validchs"]);
                self.builtin_open(kw, "builtin-named");
                self.pad("after-lparen", true);
                self.value();
                if self.r.chance(1, 2) {
                    self.comma();
                    self.pad("after-comma", true);
                    self.value();
                }
                self.close_paren();
            }
            _ => {
                self.p.kinds.insert("%sysfunc");
                let kw = self.r.pick(&["%sysfunc", "%qsysfunc", "%SYSFUNC"]);
                self.builtin_open(kw, "%sysfunc");
                self.pad("after-lparen", true);
                { let t__ = self.r.pick(FUNCS); self.put(t__) };
                self.pad("name-lparen", true);
                let lp = self.pos();
                self.put("(");
                self.open_parens.push(lp);
                self.p.marks.push(Mark::Delim { pos: lp, ty: TokenType::LPAREN, hidden: false });
                let nargs = self.r.below(4);
                for i in 0..nargs {
                    self.pad("after-delim", true);
                    self.expr(true, ExprEnd::CommaOrParen);
                    if i + 1 < nargs {
                        self.comma();
                    }
                }
                self.close_paren();
                if self.r.chance(1, 3) {
                    self.pad("before-tail-comma", true);
                    self.comma();
                    self.pad("after-comma", true);
                    { let t__ = self.r.pick(&["best12.", "date9.", "$char10.", "z5."]); self.put(t__) };
                }
                self.close_paren();
            }
        }
        self.top_level = saved_top;
        self.leave();
    }

    // ----------------------------------------------------------------------------------------
    // expressions

    /// a plain word as operand: it is text, whatever letters it is made of
    fn word_operand(&mut self) {
        let w = if self.cfg.unicode && self.r.chance(1, 8) {
            // decomposed (NFD) spellings and other XID_Continue characters inside a word
            self.r.pick(&["mo\u{308}ge", "la\u{308}ge", "Be\u{301}nin", "col\u{b7}le", "é1", "naïve", "x\u{301}eq"])
        } else {
            self.r.pick(&[
                "abc", "val", "x1", "zz", "foo", "tmp", "line", "one", "age", "alone", "gene", "angle", "legend", "engine", "none",
                "long", "oil", "nine", "lane", "eagle", "opinion", "online", "annoy", "label", "level", "ideal", "agenda", "e", "n",
                "ge1", "eq_", "note", "andy", "order", "inner", "gt2", "le_x", "notin", "origin",
            ])
        };
        let pos = self.pos();
        self.put(w);
        self.p.marks.push(Mark::Text { pos, len: w.len() });
    }

    fn operand(&mut self, float: bool, depth: usize) {
        let choice = if self.room() && depth < 3 { self.r.below(12) } else { self.r.below(6) };
        match choice {
            0..=3 => {
                let (t, v) = self.int_text();
                let pos = self.pos();
                self.put(&t);
                self.p.marks.push(Mark::Int { pos, len: t.len(), value: v });
            }
            4 => {
                if float {
                    let t = self.r.pick(&["1.5", "0.25", "10.", ".5", "2.5e3", "1E2", "18446744073709551616", "99999999999999999999"]);
                    let pos = self.pos();
                    self.put(t);
                    self.p.marks.push(Mark::Float { pos, len: t.len(), bits: t.parse::<f64>().unwrap_or(0.0).to_bits() });
                } else {
                    self.word_operand();
                }
            }
            5 => self.mref(),
            6 => self.word_operand(),
            7 => self.fncall(),
            8 => self.squote(),
            9 | 10 => {
                self.p.kinds.insert("paren-in-expr");
                let lp = self.pos();
                self.put("(");
                self.p.marks.push(Mark::Op { pos: lp, len: 1, ty: TokenType::LPAREN });
                self.pad("after-op", true);
                self.expr_inner(float, depth + 1);
                let rp = self.pos();
                self.put(")");
                self.p.marks.push(Mark::Op { pos: rp, len: 1, ty: TokenType::RPAREN });
            }
            _ => self.mcall_p(),
        }
    }

    /// `(a)eq(b)`, `'x'ne'y'`: a mnemonic needs no blanks next to parentheses and quotes
    fn glued_mnemonic_expr(&mut self, float: bool, depth: usize) {
        self.p.kinds.insert("glued-mnemonic");
        let side = |g: &mut Self| {
            if g.r.chance(1, 2) {
                let lp = g.pos();
                g.put("(");
                g.p.marks.push(Mark::Op { pos: lp, len: 1, ty: TokenType::LPAREN });
                g.operand(float, depth + 2);
                let rp = g.pos();
                g.put(")");
                g.p.marks.push(Mark::Op { pos: rp, len: 1, ty: TokenType::RPAREN });
            } else {
                g.put("'q r'");
            }
        };
        side(self);
        // a quote followed by `ne` would read as the name-literal suffix `n`
        let after_quote = self.p.s.ends_with('\'');
        let (t, ty) = loop {
            let m = self.r.pick(MNEMONIC_OPS);
            if !(after_quote && m.0.starts_with(['n', 'N'])) {
                break m;
            }
        };
        let pos = self.pos();
        self.put(t);
        self.p.marks.push(Mark::Op { pos, len: t.len(), ty });
        side(self);
    }

    fn expr_inner(&mut self, float: bool, depth: usize) {
        if depth < 2 && self.room() && self.r.chance(1, 12) {
            return self.glued_mnemonic_expr(float, depth);
        }
        // optional prefix operator
        if self.r.chance(1, 8) {
            let (t, ty): (&str, TokenType) = self.r.pick(&[
                ("not ", TokenType::KwNOT),
                ("^", TokenType::NOT),
                ("~", TokenType::NOT),
                ("-", TokenType::MINUS),
                ("+", TokenType::PLUS),
                ("NOT ", TokenType::KwNOT),
            ]);
            let pos = self.pos();
            self.put(t);
            self.p.marks.push(Mark::Op { pos, len: t.trim_end().len(), ty });
        }
        self.operand(float, depth);
        let n = self.r.below(3);
        for _ in 0..n {
            if self.r.chance(1, 3) {
                // mnemonic: blanks on both sides
                let (t, ty) = self.r.pick(MNEMONIC_OPS);
                let start = self.pos();
                { let t__ = self.r.pick(&[" ", " ", "\n", " \n", "\r\n", "\t \n "]); self.put(t__) };
                let end = self.pos();
                self.p.marks.push(Mark::Insig { start, end, ctx: "before-mnemonic" });
                let pos = self.pos();
                self.put(t);
                self.p.marks.push(Mark::Op { pos, len: t.len(), ty });
                // at least one blank, then optional further blanks / comments: one hidden run
                let start = self.pos();
                self.put(" ");
                if self.r.chance(self.cfg.pad_pct, 100) {
                    { let t__ = self.r.pick(&[" ", "\n", "/* c */", "/*é\n*/ "]); self.put(t__) };
                }
                let end = self.pos();
                self.p.marks.push(Mark::Insig { start, end, ctx: "after-op" });
            } else {
                let (t, ty) = self.r.pick(SYMBOL_OPS);
                // blanks (not comments) may precede an operator
                if self.r.chance(1, 2) {
                    let start = self.pos();
                    { let t__ = self.r.pick(&[" ", "  ", "\n", " \n", "\t\n", "\r\n", " \r\n  ", "\n  ", " \n ", "  \n\n"]); self.put(t__) };
                    let end = self.pos();
                    self.p.marks.push(Mark::Insig { start, end, ctx: "before-op" });
                }
                let pos = self.pos();
                self.put(t);
                self.p.marks.push(Mark::Op { pos, len: t.len(), ty });
                self.pad("after-op", true);
            }
            self.operand(float, depth);
        }
    }

    fn expr(&mut self, float: bool, end: ExprEnd) {
        self.enter("expr");
        self.expr_inner(float, 0);
        // trailing blanks before the terminator are insignificant; a statement keyword
        // terminator needs at least one
        let need = matches!(end, ExprEnd::Stat);
        if need || self.r.chance(1, 4) {
            let start = self.pos();
            { let t__ = self.r.pick(&[" ", " ", "  ", "\n"]); self.put(t__) };
            let e = self.pos();
            self.p.marks.push(Mark::Insig { start, end: e, ctx: "expr-tail" });
        }
        self.leave();
    }

    // ----------------------------------------------------------------------------------------
    // statements

    fn semi(&mut self) {
        self.put(";");
        self.last_semi = true;
        if self.top_level && self.path.is_empty() && self.in_macro == 0 {
            let pos = self.pos();
            self.p.marks.push(Mark::Boundary { pos });
        }
    }

    fn otok(&mut self) {
        let choice = if self.room() { self.r.below(16) } else { self.r.below(7) };
        match choice {
            0..=2 => {
                let w = self.word();
                self.put(w);
            }
            3 => {
                let t = self.r.pick(&["1", "42", "3.14", "1e5", "0ffx", ".5", "12345678901234567890", "1E-3", "007"]);
                let start = self.pos();
                self.put(t);
                let end = self.pos();
                self.p.marks.push(Mark::Num { start, end });
            }
            4 => { let t__ = self.r.pick(&["=", "+", "-", "/", "<=", "||", "**", "(", ")", ",", "<>", "=*", "{", "}", ":", "@", "?"]); self.put(t__) },
            5 => { let t__ = self.r.pick(&["$char10.", "$5.", "best12.", "_all_", "_null_", "lt", "and"]); self.put(t__) },
            6 => self.squote(),
            7 => self.dquote(true),
            8 => self.dquote(false),
            9 | 10 => self.mref_text(),
            11 | 12 => self.mcall_p(),
            13 | 14 => self.fncall(),
            _ => {
                let start = self.pos();
                self.put("/* note; */");
                let end = self.pos();
                self.p.marks.push(Mark::Insig { start, end, ctx: "comment-in-open-code" });
            }
        }
    }

    fn open_stmt(&mut self) {
        self.enter("open");
        // first token: a word that is not a datalines keyword, never '*'
        let w = self.r.pick(&["data", "set", "x", "y", "proc", "run", "if", "put", "a1", "call", "keep", "format"]);
        self.put(w);
        let n = self.r.below(6);
        for _ in 0..n {
            self.blank();
            self.otok();
        }
        if self.r.chance(1, 3) {
            self.blank();
        }
        self.leave();
        self.semi();
    }

    fn datablock(&mut self) {
        self.enter("datalines");
        let four = self.r.chance(1, 3);
        let kw = if four {
            self.r.pick(&["datalines4", "cards4", "lines4", "DATALINES4"])
        } else {
            self.r.pick(&["datalines", "cards", "lines", "Cards", "DATALINES"])
        };
        self.put(kw);
        if self.r.chance(1, 3) {
            { let t__ = self.r.pick(&[" ", "\n", "  "]); self.put(t__) };
        }
        self.put(";");
        let n = self.r.below(4);
        self.put("\n");
        for _ in 0..n {
            let line = if four {
                self.r.pick(&["1 2 3", "a;b", "x;;;y", "'unbalanced", "%let x=1;", "é ж", "/* not a comment", "&a %b", "a;é", "b;;€", "c;😀", "d;xyé", ";;;ж", "e; €"])
            } else {
                self.r.pick(&["1 2 3", "abc def", "'unbalanced", "%let x=1", "é ж", "/* not a comment", "&a %b", "* star"])
            };
            self.put(line);
            self.put("\n");
        }
        self.put(if four { ";;;;" } else { ";" });
        self.last_semi = true;
        if self.top_level && self.path.len() == 1 && self.in_macro == 0 {
            // NOTE: not a closed boundary on the pinned tree (pending flag, D8); marked by caller
        }
        self.leave();
    }

    fn star_comment(&mut self) {
        self.enter("starcomment");
        self.put("*");
        let n = self.r.below(4);
        for _ in 0..n {
            self.put(" ");
            let t = match self.r.below(8) {
                0 => "it's",
                1 => "\"open",
                2 => "/* x",
                3 if self.cfg.unicode => "é",
                4 => "a=b, c",
                5 => "\n",
                _ => self.word(),
            };
            self.put(t);
        }
        self.leave();
        self.put(";");
        // a statement-level comment keeps the last default token unchanged
        if self.top_level && self.path.is_empty() && self.in_macro == 0 && self.last_semi {
            let pos = self.pos();
            self.p.marks.push(Mark::Boundary { pos });
        }
    }

    fn macro_comment(&mut self) {
        self.enter("mcomment");
        self.put("%*");
        let n = self.r.below(4);
        for _ in 0..n {
            self.put(" ");
            let t = match self.r.below(10) {
                0 => "'a;b'",
                1 => "\"c;d\"",
                7 => "\"it's; x\"",
                8 => "'say \"hi;\" now'",
                9 => "\"don't\" 'a\"b'",
                2 => "%let",
                3 => "&x",
                4 => "\n",
                _ => self.word(),
            };
            self.put(t);
        }
        self.leave();
        self.put(";");
        if self.top_level && self.path.is_empty() && self.in_macro == 0 && self.last_semi {
            let pos = self.pos();
            self.p.marks.push(Mark::Boundary { pos });
        }
    }

    /// references usable inside a name expression (no literal dots)
    fn mref_name(&mut self) {
        let before = self.p.s.len();
        loop {
            self.mref();
            if !self.p.s[before..].contains("..") {
                break;
            }
            self.p.s.truncate(before);
        }
    }

    fn name_expr(&mut self) {
        match self.r.below(6) {
            0 => {
                let w = self.ascii_word();
                self.put(w);
                self.mref_name();
            }
            1 => self.mref_name(),
            _ => {
                let w = self.ascii_word();
                self.put(w);
            }
        }
    }

    /// macro text up to ';' (for %let / %put): no statements inside
    fn mtext(&mut self) {
        let n = self.r.below(5);
        for i in 0..n {
            if i > 0 {
                self.put(" ");
            }
            let choice = if self.room() { self.r.below(12) } else { self.r.below(5) };
            match choice {
                0..=2 => {
                    let w = self.word();
                    self.put(w);
                }
                3 => {
                    let (t, _) = self.int_text();
                    self.put(&t);
                }
                4 => { let t__ = self.r.pick(&["=", "+", "(", ")", ",", "a=b", "x.y", "/", "%", "&"]); self.put(t__) },
                5 => self.mref_text(),
                6 => self.squote(),
                7 => self.dquote(true),
                8 | 9 => self.mcall_p(),
                10 => self.fncall(),
                _ => self.strq(),
            }
        }
    }

    fn kw(&mut self, base: &str) {
        // keyword in random case
        let s: String = match self.r.below(4) {
            0 => base.to_ascii_uppercase(),
            1 => {
                let mut up = true;
                base.chars()
                    .map(|c| {
                        up = !up;
                        if up { c.to_ascii_uppercase() } else { c }
                    })
                    .collect()
            }
            _ => base.to_string(),
        };
        self.put(&s);
    }

    fn let_stmt(&mut self) {
        self.enter("%let");
        self.kw("%let");
        self.blank();
        self.name_expr();
        let prev_end = self.pos();
        let p1 = self.pad("before-assign", true);
        let eq = self.pos();
        self.put("=");
        self.p.marks.push(Mark::Delim { pos: eq, ty: TokenType::ASSIGN, hidden: false });
        let p2 = self.pad("after-assign", true);
        self.p.deletions.push(Deletion {
            pos: eq,
            prev_end,
            error: ErrorKind::MissingExpectedAssign,
            token: TokenType::ASSIGN,
            hidden: false,
            construct: "%let",
            padded: p1 || p2,
            expect_at: None,
        });
        self.mtext();
        self.leave();
        self.semi();
    }

    fn put_stmt(&mut self) {
        self.enter("%put");
        self.kw("%put");
        self.blank();
        self.mtext();
        self.leave();
        self.semi();
    }

    fn local_global(&mut self) {
        self.enter("%local");
        let k = self.r.pick(&["%local", "%global"]);
        self.kw(k);
        let n = self.r.range(1, 3);
        for _ in 0..n {
            self.blank();
            self.name_expr();
        }
        self.pad("before-semi", true);
        self.leave();
        self.semi();
    }

    fn goto_stmt(&mut self) {
        self.enter("%goto");
        self.kw("%goto");
        self.blank();
        { let t__ = self.r.pick(LABELS); self.put(t__) };
        self.pad("before-semi", true);
        self.leave();
        self.semi();
    }

    fn label(&mut self) {
        self.enter("label");
        self.put("%");
        { let t__ = self.r.pick(LABELS); self.put(t__) };
        self.put(":");
        self.last_semi = false;
        self.leave();
    }

    fn return_stmt(&mut self) {
        self.enter("%return");
        self.kw("%return");
        let prev_end = self.pos();
        let padded = self.pad("before-semi", true);
        let pos = self.pos();
        self.p.deletions.push(Deletion {
            pos,
            prev_end,
            error: ErrorKind::MissingExpectedSemiOrEOF,
            token: TokenType::SEMI,
            hidden: false,
            construct: "%return",
            padded,
            expect_at: None,
        });
        self.leave();
        self.semi();
    }

    fn end_stmt(&mut self) {
        self.kw("%end");
        let prev_end = self.pos();
        let padded = self.pad("before-semi", true);
        let pos = self.pos();
        self.p.deletions.push(Deletion {
            pos,
            prev_end,
            error: ErrorKind::MissingExpectedSemiOrEOF,
            token: TokenType::SEMI,
            hidden: false,
            construct: "%end",
            padded,
            expect_at: None,
        });
        self.semi();
    }

    /// an open-code fragment without its ';' at the end of a %macro or %do body (function-style
    /// macros return a value this way); the statement it belongs to is completed by the caller
    fn value_tail(&mut self) {
        self.p.kinds.insert("value-tail");
        match self.r.below(6) {
            0 | 1 => self.mref(),
            2 => {
                let w = self.word();
                self.put(w);
            }
            3 => {
                let (t, _) = self.int_text();
                self.put(&t);
            }
            4 if self.room() => self.fncall(),
            _ => {
                self.mref();
                self.put(" + 1");
            }
        }
        { let t__ = self.r.pick(&[" ", "\n", "\n  "]); self.put(t__) };
    }

    fn body_stmts(&mut self, n: usize) {
        for _ in 0..n {
            { let t__ = self.r.pick(&[" ", "\n", "\n  "]); self.put(t__) };
            self.stmt(false);
        }
        { let t__ = self.r.pick(&[" ", "\n"]); self.put(t__) };
    }

    fn do_block(&mut self) {
        self.enter("%do");
        self.kw("%do");
        match self.r.below(4) {
            0 | 1 => {
                self.p.kinds.insert("%do-plain");
                self.pad("before-semi", true);
                self.semi();
            }
            2 => {
                self.p.kinds.insert("%do-iter");
                self.blank();
                // the loop variable may be produced by a macro call / quoting function
                if self.room() && self.r.chance(1, 4) {
                    self.p.kinds.insert("%do-iter-call-var");
                    match self.r.below(4) {
                        0 => self.mcall_p(),
                        1 => self.strq(),
                        2 => {
                            self.put("%unquote(");
                            let w = self.ascii_word();
                            self.put(w);
                            self.put(")");
                        }
                        _ => {
                            let w = self.ascii_word();
                            self.put(w);
                            self.mcall_p();
                        }
                    }
                    // the name may go on after the call
                    if self.r.chance(1, 3) {
                        let t = self.r.pick(&["2", "_x", "9z", "&sfx", "&sfx.1"]);
                        self.put(t);
                    }
                } else {
                    self.name_expr();
                }
                let prev_end = self.pos();
                let p1 = self.pad("before-assign", true);
                let eq = self.pos();
                self.put("=");
                self.p.marks.push(Mark::Delim { pos: eq, ty: TokenType::ASSIGN, hidden: false });
                let p2 = self.pad("after-assign", true);
                self.p.deletions.push(Deletion {
                    pos: eq,
                    prev_end,
                    error: ErrorKind::MissingExpectedAssign,
                    token: TokenType::ASSIGN,
                    hidden: false,
                    construct: "%do-iter",
                    padded: p1 || p2,
                    expect_at: None,
                });
                self.expr(false, ExprEnd::Stat);
                self.kw("%to");
                self.blank();
                if self.r.chance(1, 2) {
                    self.expr(false, ExprEnd::Stat);
                    self.kw("%by");
                    self.blank();
                    self.expr(false, ExprEnd::Semi);
                } else {
                    self.expr(false, ExprEnd::Semi);
                }
                self.semi();
            }
            _ => {
                self.p.kinds.insert("%do-while");
                self.blank();
                let k = self.r.pick(&["%while", "%until"]);
                self.kw(k);
                let kw_end = self.pos();
                let padded = self.pad("kw-lparen", true);
                let lp = self.pos();
                self.put("(");
                self.open_parens.push(lp);
                self.p.marks.push(Mark::Delim { pos: lp, ty: TokenType::LPAREN, hidden: false });
                self.p.deletions.push(Deletion {
                    pos: lp,
                    prev_end: kw_end,
                    error: ErrorKind::MissingExpectedLParen,
                    token: TokenType::LPAREN,
                    hidden: false,
                    construct: "%do-while-lparen",
                    padded,
                    expect_at: None,
                });
                self.pad("after-lparen", true);
                self.expr(false, ExprEnd::Paren);
                self.close_paren();
                let prev_end = self.pos();
                let padded = self.pad("before-semi", true);
                let pos = self.pos();
                self.p.deletions.push(Deletion {
                    pos,
                    prev_end,
                    error: ErrorKind::MissingExpectedSemiOrEOF,
                    token: TokenType::SEMI,
                    hidden: false,
                    construct: "%do-while-semi",
                    padded,
                    expect_at: None,
                });
                self.semi();
            }
        }
        let n = if self.room() { self.r.below(3) } else { 0 };
        self.body_stmts(n);
        if self.r.chance(1, 5) {
            self.value_tail();
        }
        self.end_stmt();
        self.leave();
    }

    fn if_stmt(&mut self) {
        self.enter("%if");
        self.kw("%if");
        self.blank();
        self.expr(false, ExprEnd::Stat);
        self.kw("%then");
        self.blank();
        self.body();
        if self.r.chance(1, 2) {
            { let t__ = self.r.pick(&[" ", "\n"]); self.put(t__) };
            self.kw("%else");
            self.blank();
            self.body();
        }
        self.leave();
    }

    fn body(&mut self) {
        let choice = if self.room() { self.r.below(6) } else { self.r.below(2) };
        match choice {
            0 => self.open_stmt(),
            1 => self.put_stmt(),
            2 => self.let_stmt(),
            3 => {
                self.mcall_p();
                self.semi();
            }
            _ => self.do_block(),
        }
    }

    fn macro_def(&mut self) {
        self.enter("%macro");
        self.in_macro += 1;
        self.kw("%macro");
        self.blank();
        let name = self.def_name();
        self.put(name);
        if self.r.chance(2, 3) {
            self.p.kinds.insert("%macro-params");
            self.pad("name-lparen", true);
            let lp = self.pos();
            self.put("(");
            self.open_parens.push(lp);
            self.p.marks.push(Mark::Delim { pos: lp, ty: TokenType::LPAREN, hidden: false });
            let n = self.r.below(4);
            let saved_top = self.top_level;
            self.top_level = false;
            for i in 0..n {
                self.pad("before-arg", true);
                let w = self.r.pick(WORDS) /* parameter names of a definition are ASCII-only */;
                self.put(w);
                if self.r.chance(1, 2) {
                    self.pad("before-assign", true);
                    let eq = self.pos();
                    self.put("=");
                    self.p.marks.push(Mark::Delim { pos: eq, ty: TokenType::ASSIGN, hidden: false });
                    self.pad("after-assign", true);
                    if self.r.chance(2, 3) {
                        self.value();
                    }
                } else {
                    self.pad("after-param", true);
                }
                if i + 1 < n {
                    self.comma();
                }
            }
            self.top_level = saved_top;
            self.close_paren();
        }
        if self.r.chance(1, 3) {
            self.pad("before-slash", true);
            self.put("/");
            self.pad("after-slash", false);
            { let t__ = self.r.pick(&["store", "des='x;y'", "minoperator mindelimiter=','", "source"]); self.put(t__) };
        }
        self.pad("before-semi", false);
        self.semi();
        let n = if self.room() { self.r.below(4) } else { 0 };
        self.body_stmts(n);
        if self.r.chance(1, 3) {
            self.value_tail();
        }
        self.kw("%mend");
        if self.r.chance(1, 2) {
            self.blank();
            self.put(name);
        }
        self.pad("before-semi", false);
        self.in_macro -= 1;
        self.leave();
        self.semi();
    }

    /// other macro statements with simple, fixed argument shapes
    fn misc_stmt(&mut self) {
        self.enter("misc-stmt");
        match self.r.below(10) {
            0 => {
                self.kw("%symdel");
                self.blank();
                self.name_expr();
                self.pad("before-semi", true);
            }
            1 => {
                self.kw("%abort");
                if self.r.chance(1, 2) {
                    self.blank();
                    { let t__ = self.r.pick(&["cancel", "abend", "return 4"]); self.put(t__) };
                }
            }
            2 => {
                self.kw("%sysexec");
                self.blank();
                self.mtext();
            }
            3 => {
                self.kw("%syscall");
                self.blank();
                { let t__ = self.r.pick(&["ranuni", "set", "symput"]); self.put(t__) };
                self.pad("name-lparen", true);
                let lp = self.pos();
                self.put("(");
                self.open_parens.push(lp);
                self.p.marks.push(Mark::Delim { pos: lp, ty: TokenType::LPAREN, hidden: false });
                let saved = self.top_level;
                self.top_level = false;
                let n = self.r.range(1, 3);
                for i in 0..n {
                    self.pad("after-delim", true);
                    self.expr(true, ExprEnd::CommaOrParen);
                    if i + 1 < n {
                        self.comma();
                    }
                }
                self.top_level = saved;
                self.close_paren();
                self.pad("before-semi", true);
            }
            4 => {
                self.kw("%include");
                self.blank();
                { let t__ = self.r.pick(&["'file.sas'", "fref", "\"&path./x.sas\""]); self.put(t__) };
            }
            5 => {
                self.kw("%copy");
                self.blank();
                { let t__ = self.def_name(); self.put(t__) };
                self.pad("before-slash", true);
                let pos = self.pos();
                self.put("/");
                self.p.marks.push(Mark::Delim { pos, ty: TokenType::FSLASH, hidden: false });
                self.pad("after-slash", true);
                { let t__ = self.r.pick(&["source", "src outfile=x", "lib=work source"]); self.put(t__) };
            }
            6 => {
                let k = self.r.pick(&["%local", "%global"]);
                self.kw(k);
                self.pad("kw-slash", true);
                self.put("/");
                self.pad("after-slash", true);
                self.put("readonly");
                self.blank();
                self.name_expr();
                self.pad("before-assign", true);
                let eq = self.pos();
                self.put("=");
                self.p.marks.push(Mark::Delim { pos: eq, ty: TokenType::ASSIGN, hidden: false });
                self.pad("after-assign", true);
                self.mtext();
            }
            7 => {
                let k = self.r.pick(&["%input", "%window", "%display", "%syslput", "%sysrput"]);
                self.kw(k);
                self.blank();
                self.name_expr();
                if self.r.chance(1, 2) {
                    self.put(" ");
                    self.name_expr();
                }
            }
            8 => {
                let k = self.r.pick(&["%sysmstoreclear", "%list", "%run"]);
                self.kw(k);
                self.pad("before-semi", true);
            }
            _ => {
                self.kw("%goto");
                self.blank();
                self.mref();
            }
        }
        self.leave();
        self.semi();
    }

    fn stmt(&mut self, top: bool) {
        if self.room() && self.r.chance(1, 16) {
            return self.misc_stmt();
        }
        let choice = if self.room() { self.r.below(24) } else { self.r.below(8) };
        match choice {
            0..=3 => self.open_stmt(),
            4 => self.let_stmt(),
            5 => self.put_stmt(),
            6 => {
                let start = self.pos();
                { let t__ = self.r.pick(&["/* c */", "/* a;b */", "/**/", "/* 'q */", "/*/ c */", "/*/*/", "/*/ ' ( */"]); self.put(t__) };
                let end = self.pos();
                self.p.marks.push(Mark::Insig { start, end, ctx: "statement-comment" });
            }
            7 => self.star_comment(),
            8 => self.macro_comment(),
            9 => self.local_global(),
            10 => self.goto_stmt(),
            11 if top || self.in_macro > 0 => self.label(),
            12 => self.return_stmt(),
            13 | 14 => self.if_stmt(),
            15 | 16 => self.do_block(),
            17 | 18 => self.macro_def(),
            19 | 20 => {
                self.mcall_p();
                if self.r.chance(2, 3) {
                    self.semi();
                } else {
                    self.last_semi = false;
                }
            }
            21 if self.last_semi => self.datablock(),
            _ => self.open_stmt(),
        }
    }
}

#[derive(Clone, Copy)]
pub enum ExprEnd {
    Paren,
    CommaOrParen,
    Stat,
    Semi,
}

/// Generate one well-formed program with its ground truth.
pub fn gen_program(r: &mut Rng, cfg: Cfg) -> Prog {
    let mut g = G {
        r,
        p: Prog::default(),
        cfg,
        path: Vec::new(),
        last_semi: true,
        in_macro: 0,
        in_dq: 0,
        top_level: true,
        open_parens: Vec::new(),
        pending_comma_del: Vec::new(),
    };
    let n = g.r.range(cfg.stmts.0, cfg.stmts.1);
    for i in 0..n {
        if i > 0 {
            let s = g.r.pick(&["\n", " ", "\n\n", "\n  "]);
            g.put(s);
        }
        g.stmt(true);
        if g.p.s.len() > cfg.max_len {
            break;
        }
    }
    g.p
}

/// A well-formed program wrapped in `levels` nested %macro / %do / %if-%then-%do blocks (deeper
/// than any internal initial capacity), optionally ending in a function-style value tail.
pub fn gen_deep_program(r: &mut Rng, cfg: Cfg, levels: usize) -> Prog {
    let mut g = G {
        r,
        p: Prog::default(),
        cfg,
        path: Vec::new(),
        last_semi: true,
        in_macro: 0,
        in_dq: 0,
        top_level: true,
        open_parens: Vec::new(),
        pending_comma_del: Vec::new(),
    };
    // an optional closed statement first, so that there is a boundary before the deep block
    if g.r.chance(1, 2) {
        g.open_stmt();
        g.put("\n");
    }
    let mut closers: Vec<u8> = Vec::new();
    // the outermost level is a macro definition so that a value tail is legitimate
    g.put("%macro deep_1;");
    g.in_macro += 1;
    closers.push(0);
    g.p.kinds.insert("deep-nesting");
    for k in 1..levels {
        let sep = if g.r.chance(1, 4) { "\n" } else { " " };
        g.put(sep);
        match g.r.below(5) {
            0 => {
                g.put("%do;");
                closers.push(1);
            }
            1 | 2 => {
                g.put("%if &c");
                g.put(&k.to_string());
                g.put(" %then %do;");
                closers.push(1);
            }
            3 => {
                g.put("%do i");
                g.put(&k.to_string());
                g.put("=1 %to 2;");
                closers.push(1);
            }
            _ => {
                g.put("%macro deep_");
                g.put(&(k + 1).to_string());
                g.put(";");
                g.in_macro += 1;
                closers.push(0);
            }
        }
    }
    let mut innermost = true;
    while let Some(c) = closers.pop() {
        // statements and then possibly a value tail in this level's body (in the innermost block,
        // and at intermediate levels after the deeper blocks have closed); the tail is always last
        let outermost = closers.is_empty();
        if innermost || g.r.chance(1, if outermost { 2 } else { 10 }) {
            if innermost || g.r.chance(1, 2) {
                g.path = vec!["deep-nesting"; 3]; // keep inner constructs shallow
                let n = g.r.range(usize::from(!innermost), 2);
                g.body_stmts(n);
                g.path.clear();
            }
            if g.r.chance(1, 2) {
                g.value_tail();
            }
        }
        innermost = false;
        if c == 1 {
            g.put("%end;");
        } else {
            g.put("%mend;");
            g.in_macro -= 1;
        }
        let sep = if g.r.chance(1, 6) { "\n" } else { " " };
        g.put(sep);
    }
    g.last_semi = true;
    let pos = g.pos() - 1;
    g.p.marks.push(Mark::Boundary { pos });
    g.p.max_depth = g.p.max_depth.max(levels);
    g.p
}

/// Generate a single construct of a given family, used by the targeted C13/C14 workloads.
pub fn gen_call(r: &mut Rng, cfg: Cfg) -> Prog {
    let mut g = G {
        r,
        p: Prog::default(),
        cfg,
        path: Vec::new(),
        last_semi: true,
        in_macro: 0,
        in_dq: 0,
        top_level: true,
        open_parens: Vec::new(),
        pending_comma_del: Vec::new(),
    };
    match g.r.below(6) {
        0 | 1 => {
            g.mcall_p();
            g.semi();
        }
        2 | 3 => {
            g.put("%put ");
            g.fncall();
            g.semi();
        }
        4 => g.let_stmt(),
        _ => g.macro_def(),
    }
    g.p
}

pub fn gen_stmt_for_deletion(r: &mut Rng, cfg: Cfg) -> Prog {
    let mut g = G {
        r,
        p: Prog::default(),
        cfg,
        path: Vec::new(),
        last_semi: true,
        in_macro: 0,
        in_dq: 0,
        top_level: true,
        open_parens: Vec::new(),
        pending_comma_del: Vec::new(),
    };
    match g.r.below(8) {
        0 => g.let_stmt(),
        1 | 2 => g.do_block(),
        3 => g.return_stmt(),
        4 => {
            // %copy name / opts ;
            g.enter("%copy");
            g.kw("%copy");
            g.blank();
            { let t__ = g.def_name(); g.put(t__) };
            let prev_end = g.pos();
            let p1 = g.pad("before-slash", true);
            let pos = g.pos();
            g.put("/");
            g.p.marks.push(Mark::Delim { pos, ty: TokenType::FSLASH, hidden: false });
            let p2 = g.pad("after-slash", true);
            g.p.deletions.push(Deletion {
                pos,
                prev_end,
                error: ErrorKind::MissingExpectedFSlash,
                token: TokenType::FSLASH,
                hidden: false,
                construct: "%copy",
                padded: p1 || p2,
                expect_at: None,
            });
            { let t__ = g.r.pick(&["source", "src outfile=x", "lib=work source"]); g.put(t__) };
            g.leave();
            g.semi();
        }
        _ => {
            g.put("%put ");
            g.fncall();
            g.semi();
        }
    }
    // a follower so that the delimiter is never at end of input
    let tail = g.r.pick(&[" x = 1;", "\n%put done;", " data a; run;", "\n/* c */ y;"]);
    g.put(tail);
    g.p
}
