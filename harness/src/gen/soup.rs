//! G2 token soup: concatenations of fragments from a hostile alphabet, and G5 short strings.

use crate::rng::Rng;

pub const MACRO_STATS: &[&str] = &[
    "%abort", "%copy", "%display", "%do", "%to", "%by", "%until", "%while", "%end", "%global",
    "%goto", "%if", "%then", "%else", "%input", "%let", "%local", "%macro", "%mend", "%put",
    "%return", "%symdel", "%syscall", "%sysexec", "%syslput", "%sysmacdelete",
    "%sysmstoreclear", "%sysrput", "%window", "%include", "%inc", "%list", "%run",
];

pub const MACRO_FUNCS: &[&str] = &[
    "%cmpres", "%compstor", "%datatyp", "%eval", "%index", "%left", "%length", "%lowcase",
    "%scan", "%substr", "%symexist", "%symglobl", "%symlocal", "%sysevalf", "%sysfunc",
    "%sysget", "%sysmacexec", "%sysmacexist", "%sysmexecdepth", "%sysmexecname", "%sysprod",
    "%trim", "%unquote", "%upcase", "%verify", "%kcmpres", "%kindex", "%kleft", "%klength",
    "%klowcase", "%kscan", "%ksubstr", "%ktrim", "%kupcase", "%kverify", "%validchs",
    "%qcmpres", "%qleft", "%qlowcase", "%qscan", "%qsubstr", "%qtrim", "%qsysfunc", "%qupcase",
    "%qkcmpres", "%qkleft", "%qklowcase", "%qkscan", "%qksubstr", "%qktrim", "%qkupcase",
    "%bquote", "%nrbquote", "%nrquote", "%quote", "%superq", "%str", "%nrstr",
];

pub const SYMBOLS: &[&str] = &[
    ";", "&", "%", "(", ")", "{", "}", "[", "]", "*", "!", "!!", "¦", "¦¦", "||", "**", "¬", "^",
    "~", "∘", "/", "+", "-", "><", "<>", "<", "<=", "¬=", "^=", "~=", "∘=", ">", ">=", "=*", "|",
    ".", ",", ":", "=", "$", "@", "#", "?", "%=", "%^", "%~", "%^=", "%~=",
];

pub const MNEMONICS: &[&str] = &["eq", "ne", "lt", "le", "gt", "ge", "and", "or", "not", "in"];

pub const KEYWORDS: &[&str] = &[
    "data", "set", "run", "proc", "if", "then", "else", "do", "end", "input", "put", "format",
    "_all_", "_null_", "select", "from", "where", "eqt", "gtt", "ltt", "get", "let", "net",
    "corresponding", "exec", "length", "array",
];

pub const LITERALS: &[&str] = &[
    "'a'", "''", "'it''s'", "\"a\"", "\"\"", "\"a\"\"b\"", "'01jan2020'd", "'12:00't",
    "'01jan2020:12:00'dt", "'my var'n", "'0101'b", "'4142'x", "'41,42'x", "'4'x", "'g1'x",
    "\"4142\"x", "\"a\"d", "\"a\"dt", "\"a\"n", "\"a\"t", "\"a\"b", "\"&a\"", "\"&a.b\"",
    "\"%m(1)\"", "\"a&b\"\"c\"", "\"%let x=1;\"", "'", "\"", "'a", "\"a", "\"&a", "'a''",
    "\"a\"\"", "\"% \"\"a\"", "\"&& \"\"a\"", "'+1'x", "'-1'x", "\"+1\"x", "''x", "'é'x", "'0D0O'x", "'53,41,5'x", "\"534G\"x", "'09'x", "\"0d0a\"x",
];

pub const NUMERICS: &[&str] = &[
    "0", "1", "42", "007", "1.", ".5", "1.5", "1e5", "1E5", "1e+5", "1e-5", "1.5e3", "1e", "1e+",
    "1.e5", "0x", "1fx", "0ffx", "0FFX", "9ffffffffffffffffx", "1f", "12abc", "1ex", "1e5x",
    "18446744073709551615", "18446744073709551616", "1e309", "1e-400", "00", "1..2", "1.2.3",
    "1_0", "9d", "0b",
];

pub const AMPS: &[&str] = &[
    "&a", "&&a", "&&&a", "&&&&a", "&&&&&a", "&&&&&&&a", "&&&&&&&&a", "&&&&&&&&&a", "&a.", "&a..b",
    "&&a&b", "&&a&b..c", "&a&b", "&a.&b.", "&", "&&", "&&&", "& a", "&1", "&é", "&_", "&a%b",
    "&&&&&&&&&&&&&&&&a", "&a&&", "&&a&&&b.", "&a& b", "&a&1", "&lib..sales", "&yr.q1", "&&p&i..x", "&a&) ",
];

pub const PERCENTS: &[&str] = &[
    "%'", "%\"", "%%", "%(", "%)", "% ", "%1", "%*", "%* c;", "%* 'a;' ;", "%*\"a;", "%é", "%_a",
    "%a", "%m", "%mm", "%m(", "%m()", "%m(a)", "%m(a=1)", "%m(a=1,b)", "%m (", "%m /*c*/ (",
    "%m:", "%m :", "%lbl:", "%m(a%*c;b=1)", "%m(a b", "%m(a,", "%m(a=", "%m((", "%m((a),b)",
];

pub const DATALINES: &[&str] = &[
    "datalines;", "cards;", "lines;", "datalines4;", "cards4;", "lines4;", "DataLines ;",
    "datalines\n;", "datalines", ";;;;", ";;;", ";;", "datalines;\n1 2\n;", "cards4;\na;b\n;;;;",
    "datalines4;\n1 2;;;a", "datalines;\n1\n;\n* c;", "datalines44;\n1;2\n;;;;", "cards444;", "LINES44 ;", "datalines4x;",
    "lines\n= 3;", "cards\n\n x;", "datalines4 \n,a;",
];

pub const COMMENTS: &[&str] = &[
    "/* c */", "/**/", "/*", "/* c", "/*/", "/* * / */", "* c;", "*c", "*;", "* 'a;", "%* c;",
    "%*", "/* ; */", "/*\n*/",
];

pub const HOSTILE: &[&str] = &[
    "\n", "\r\n", "\t", " ", "  ", "\u{a0}", "\u{2028}", "\u{3000}", "é", "ж", "日本", "😀", "e\u{301}",
    "\u{feff}", "\0", "¬", "¦", "∘", "\u{1680}", "ℕ", "_", "\u{200b}", "\r", "\u{b}", "\u{c}",
    "ß", "İ", "ǅ", "\u{fffe}", "\u{ffff}", "\u{1a}", "\u{1c}", "\u{1f}", "\u{7f}", "\u{85}", "\u{2060}", "\u{fe0f}", "ï»¿", "５", "²", "½", "٣",
];

pub const WORDS: &[&str] = &[
    "a", "b", "x", "abc", "a1", "_x", "x_1", "A", "Ab", "e", "n", "l", "g", "o", "i", "eq1", "inx",
    "and_", "xor", "note", "é1", "дата", "a.b", "lib.ds", "$char10.", "$10.", "$f.", "$é5.2",
    "$", "best12.", "8.2", "f8.",
];

pub const STATEMENTS: &[&str] = &[
    "%let a=1;", "%let a=%eval(1+2);", "%put hello;", "%if &a %then %do;", "%end;", "%else %do;",
    "%do i=1 %to 3;", "%do i=1 %to 3 %by 1;", "%do %while(&i<3);", "%do %until(&i=3);", "%do;",
    "%macro m;", "%macro m(a,b=1);", "%macro m(a)/des='x';", "%mend;", "%mend m;", "%global a b;",
    "%local a;", "%local / readonly a=1;", "%goto lbl;", "%return;", "%copy m / source;",
    "%sysfunc(f(1,2))", "%sysfunc(f(a),b.)", "%scan(a b,1)", "%scan(a,1,%str( ))",
    "%substr(abc,1,2)", "%substr(a,1)", "%eval(1+1)", "%sysevalf(1.5*2)", "%sysevalf(1,ceil)",
    "%str(a;b)", "%nrstr(&a%b)", "%str(%'a)", "%str(%%a)", "%str(/%'a)", "%str(a%)b)", "%upcase(a,b)",
    "%lowcase(a,b)", "%index(a,b)", "%superq(a)", "%bquote(a,b)", "%syscall f(a,b);", "%symdel a;",
    "%do %m(a)=1 %to 3;", "%do%do;", "%do %m %n;", "%macro m / %;", "%copy%", "\"%eval(1",
    "%input a b;", "%window w;", "%display w;", "%abort;", "%sysexec ls;", "%syslput a=1;",
    "%sysrput a=b;", "%include 'f';", "%inc f;", "%list;", "%run;", "%sysmstoreclear;",
    "%sysmacdelete m / nowarn;", "%symexist(a)", "%verify(a,b)", "%compstor(pathname=x)",
    "%validchs(a)", "%sysmexecdepth", "%sysmexecname(1)", "%sysprod(x)", "%sysget(x)",
    "data a; set b; run;", "x = 1;", "if a then b = 2;", "proc sql; select * from t; quit;",
    "a = b * c;", "* comment;", "array a{3} a1-a3;", "put a= b=;", "format a $char10. b 8.2;",
];

fn return_str(s: &'static str) -> &'static str {
    s
}

fn weighted<'a>(r: &mut Rng) -> &'a str {
    // group weights
    match r.below(100) {
        0..=9 => r.pick(SYMBOLS),
        10..=17 => r.pick(MACRO_STATS),
        18..=25 => r.pick(MACRO_FUNCS),
        26..=29 => r.pick(MNEMONICS),
        30..=31 => r.pick(KEYWORDS),
        32..=33 => {
            let v = vocabulary();
            return_str(v[r.below(v.len())].as_str())
        }
        34..=41 => r.pick(LITERALS),
        42..=47 => r.pick(NUMERICS),
        48..=54 => r.pick(AMPS),
        55..=63 => r.pick(PERCENTS),
        64..=68 => r.pick(DATALINES),
        69..=73 => r.pick(COMMENTS),
        74..=81 => r.pick(HOSTILE),
        82 => {
            let l = lookalikes();
            return_str(l[r.below(l.len())].as_str())
        }
        83..=89 => r.pick(WORDS),
        _ => r.pick(STATEMENTS),
    }
}

/// One token-soup string of 1..=max_frags fragments.
pub fn soup(r: &mut Rng, max_frags: usize) -> String {
    let n = r.range(1, max_frags);
    let mut s = String::new();
    for _ in 0..n {
        let f = weighted(r);
        // built-in keyword directly followed by '(' half of the time
        s.push_str(f);
        if f.starts_with('%') && f.len() > 2 && r.chance(1, 3) {
            s.push('(');
        }
        if r.chance(1, 4) {
            s.push(' ');
        }
    }
    s
}

/// Macro-heavy soup (used where macro state matters most).
pub fn macro_soup(r: &mut Rng, max_frags: usize) -> String {
    let n = r.range(1, max_frags);
    let mut s = String::new();
    for _ in 0..n {
        let f: &str = match r.below(10) {
            0..=2 => r.pick(STATEMENTS),
            3 => r.pick(MACRO_STATS),
            4 => r.pick(MACRO_FUNCS),
            5 => r.pick(PERCENTS),
            6 => r.pick(AMPS),
            7 => r.pick(SYMBOLS),
            8 => r.pick(WORDS),
            _ => r.pick(HOSTILE),
        };
        s.push_str(f);
        if r.chance(1, 3) {
            s.push(' ');
        }
    }
    s
}

pub const SHORT_ALPHABET_40: &[&str] = &[
    "a", "e", "x", "1", "0", ".", " ", "\n", ";", "'", "\"", "&", "%", "*", "/", "(", ")", ",",
    "=", "+", "-", "<", ">", "|", "^", "$", ":", "_", "é", "d", "t", "n", "b", "¬", "!", "?", "#",
    "@", "{", "\u{feff}",
];

pub const SHORT_ALPHABET_16: &[&str] = &[
    "a", "1", ".", " ", ";", "'", "\"", "&", "%", "*", "/", "(", ")", "=", "e", "x",
];

/// Enumerate all strings of length `len` over `alphabet`, index `k` in 0..alphabet^len.
pub fn short_string(alphabet: &[&str], len: usize, mut k: usize) -> String {
    let mut s = String::new();
    for _ in 0..len {
        s.push_str(alphabet[k % alphabet.len()]);
        k /= alphabet.len();
    }
    s
}

pub fn short_space_size(alphabet: &[&str], len: usize) -> usize {
    alphabet.len().pow(len as u32)
}


/// Characters whose code point has the low byte of an ASCII character that is significant to the
/// lexer (catches `c as u8`-style truncation), and identifiers that only *upper-case* to a keyword
/// under Unicode case mapping (ı -> I, ſ -> S, ß -> SS, ﬁ -> FI, ﬆ -> ST, K (Kelvin) -> k).
pub fn lookalikes() -> &'static Vec<String> {
    static T: std::sync::OnceLock<Vec<String>> = std::sync::OnceLock::new();
    T.get_or_init(|| {
        let mut v = Vec::new();
        for base in [0x100u32, 0x200, 0x400, 0x2000, 0x3000, 0x1F600] {
            for c in "xXeE.;'\"%&*()/=,:$dDtTnNbB019 \n-+<>|!?#@".chars() {
                if let Some(ch) = char::from_u32(base + c as u32) {
                    v.push(ch.to_string());
                }
            }
        }
        for kw in [
            "if", "set", "cross", "missing", "filename", "in", "else", "datalines", "cards", "lines", "is", "insert", "select",
            "list", "distinct", "first", "join", "exists", "index", "asc", "desc", "using", "test", "restrict", "libname", "infile",
        ] {
            let subs: [(&str, &str); 6] = [("i", "ı"), ("s", "ſ"), ("ss", "ß"), ("fi", "ﬁ"), ("st", "ﬆ"), ("k", "\u{212a}")];
            for (a, b) in subs {
                if kw.contains(a) {
                    v.push(kw.replacen(a, b, 1));
                    v.push(kw.replace(a, b));
                    v.push(format!("%{}", kw.replacen(a, b, 1)));
                }
            }
        }
        for kw in ["%ıf", "%elſe", "%ſtr", "%nrſtr", "%ſcan", "%ſubstr", "%ſysfunc", "%ındex", "%do ı=1 %to 2;", "%lıst", "%ſysevalf(1)"] {
            v.push(kw.to_string());
        }
        // full-width (compatibility) twins of every significant ASCII symbol, digit and letter
        for c in "()=,/;%&*'\".:+-<>|!xXeE019".chars() {
            if let Some(ch) = char::from_u32(0xFEE0 + c as u32) {
                v.push(ch.to_string());
            }
        }
        v.sort();
        v.dedup();
        v
    })
}

/// Every keyword spelling of the independent shape table (open code and macro), plus the words
/// that are *not* keywords but would become one if a table were derived carelessly: the bare
/// variant names of the token types (`allvar`, `nulldataset`, `macrosep`, `eof` ...).
pub fn vocabulary() -> &'static Vec<String> {
    static T: std::sync::OnceLock<Vec<String>> = std::sync::OnceLock::new();
    T.get_or_init(|| {
        use strum::IntoEnumIterator;
        let mut v = Vec::new();
        for (t, kws) in crate::oracle::shapes::keyword_table() {
            let mac = crate::oracle::shapes::is_macro_kw_type(*t);
            for k in kws {
                let k = if mac { format!("%{}", k.to_ascii_lowercase()) } else { k.to_ascii_lowercase() };
                // the keyword, and near misses that must stay plain words
                v.push(format!("{k}4"));
                v.push(format!("{k}44"));
                v.push(format!("{k}_"));
                v.push(k);
            }
        }
        for t in sas_lexer::TokenType::iter() {
            let name = format!("{t:?}");
            let low = name.to_ascii_lowercase();
            for pre in ["kwm", "kw"] {
                if let Some(rest) = low.strip_prefix(pre) {
                    v.push(rest.to_string());
                    v.push(format!("%{rest}"));
                    break;
                }
            }
            v.push(low.clone());
            v.push(format!("%{low}"));
        }
        v.sort();
        v.dedup();
        v
    })
}

/// Names at and beyond the length limits a lexer might (wrongly) enforce.
pub fn long_name(r: &mut Rng) -> String {
    let n = r.pick(&[8usize, 13, 14, 31, 32, 33, 64, 255, 256, 257, 1000]);
    let mut s = String::with_capacity(n);
    for i in 0..n {
        s.push((b'a' + (i % 26) as u8) as char);
    }
    s
}
