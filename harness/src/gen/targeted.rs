//! Targeted workload generators, one family per property (DESIGN §6).

use super::grammar;
use super::mutate::{self, Corpus};
use super::soup;
use super::Tier;
use crate::rng::Rng;

const MB: &[&str] = &["é", "ж", "日", "😀", "\u{a0}", "\u{2028}", "e\u{301}", "ß", "¬", "¦", "∘", "𝔘"];

/// Replace / insert multi-byte characters inside and between tokens.
pub fn multibyte_variant(s: &str, r: &mut Rng) -> String {
    let mut o = String::with_capacity(s.len() + 16);
    let rate = r.range(4, 20);
    for c in s.chars() {
        if r.below(rate) == 0 {
            o.push_str(r.pick(MB));
            if c.is_ascii_alphabetic() && r.chance(1, 2) {
                continue; // replace the letter
            }
        }
        o.push(c);
    }
    if r.chance(1, 8) {
        o.insert(0, '\u{feff}');
    }
    o
}

/// Insert LF / CRLF at random char boundaries (inside and between tokens).
pub fn lf_variant(s: &str, r: &mut Rng) -> String {
    let mut o = String::with_capacity(s.len() + 16);
    let rate = r.range(3, 15);
    for c in s.chars() {
        if r.below(rate) == 0 {
            o.push_str(if r.chance(1, 5) { "\r\n" } else { "\n" });
        }
        o.push(c);
    }
    if r.chance(1, 3) {
        o.push('\n');
    }
    if r.chance(1, 10) {
        o.insert(0, '\u{feff}');
    }
    o
}

/// Inputs exercising checkpoint / rollback / virtual tokens (C02, C09).
pub fn speculation_case(r: &mut Rng) -> String {
    let head = r.pick(&[
        "%m", "%m ", "%m /*c*/", "%m\n", "%m(a", "%m(a ", "%m(a /*c*/", "%m(a&b", "%m(%n", "%m(%n(1)", "%m(a%n",
        "%macro x; *", "%macro x; * a", "%macro x;\n* a\n", "%do %m", "%do %m(a)", "%do %m ", "\"%m", "\"%m ",
        "%let a=%m", "%put %m ", "%if %m ", "%eval(%m ", "%m(a=%n ", "%m(a,b ", "%m(a b", "%sysfunc(%m ",
        "%m(a/*c*/", "%m(&a ", "%m(&a. ", "%m(a&b. /*c*/",
    ]);
    let follow = r.pick(&[
        "", "(", ")", "=", "=1", ":", ";", ",", " x", "x", "(1)", "=(", "%x", "%let", "%let a=1;", "/*", "/* c */", "/* c */(",
        "/* c */=", "'", "\"", "'a'", "\"a\"", "\n", "\n(", "\n=1)", " %y;", "%y(", "&z", "&z.", ")=1", "é", "=é", "(é",
        " %then", "%do;", "%end;", "%mend;", "%str(", "%eval(", "%eval(1 ", ";;;;", "*", "* c;", "% ",
    ]);
    let tail = r.pick(&["", ")", ";", ");", " %mend;", "\n", ")\"", " x;"]);
    format!("{head}{follow}{tail}")
}

const Q_INNER: &[&str] = &[
    "a", "", " ", "''", "\"\"", "'", "\"", "\n", "é", "&", "&a", "%", "%m", "% ", "/", "&&", "%%", "%'", "%\"", "41",
    "4", ",", "g", "+1", "-1", "a b", ";", "*/", "/*", "&&&", "% \"\"a", "\"\"a", "''a", "a''", "a\"\"", "&a.", "%m()",
    "%m(\"\"x)", "&a\"\"b", "\"\"&a", "%let", "%let x=1;",
];
const SUFFIXES: &[&str] = &["", "b", "d", "dt", "n", "t", "x", "B", "D", "DT", "dT", "N", "T", "X", "e", "q", "xx", "1"];

/// Quoted literal family (C07): both quotes x suffixes x escapes x hostile inner text x EOF.
pub fn literal_case(r: &mut Rng) -> String {
    let q = if r.chance(1, 2) { "'" } else { "\"" };
    let mut s = String::new();
    if r.chance(1, 3) {
        s.push_str(r.pick(&["x=", "%let a=", "%put ", "%m(", "%eval(", "%if ", "a ", "%str(", "%m(b=", "%sysfunc(f("]));
    }
    s.push_str(q);
    let n = r.below(5);
    for _ in 0..n {
        s.push_str(r.pick(Q_INNER));
    }
    if r.chance(9, 10) {
        s.push_str(q);
        s.push_str(r.pick(SUFFIXES));
    }
    if r.chance(1, 3) {
        s.push_str(r.pick(&[";", ")", " ", ");", "x", "\n"]));
    }
    s
}

const HEXCH: &[&str] = &["0", "1", "9", "a", "f", "A", "F", "4", ",", "+", "-", " ", "g", "é", "x", "''", "\"\""];

pub fn hex_case(r: &mut Rng) -> String {
    let q = if r.chance(1, 2) { "'" } else { "\"" };
    let mut s = String::from(q);
    let n = r.below(7);
    for _ in 0..n {
        s.push_str(r.pick(HEXCH));
    }
    s.push_str(q);
    s.push_str(if r.chance(1, 2) { "x" } else { "X" });
    if r.chance(1, 4) {
        s.push(';');
    }
    s
}

const STR_INNER: &[&str] = &[
    "a", " ", "%'", "%\"", "%%", "%(", "%)", "/", "&&", "&", "\n", "%", "% ", "(", ")", "(a)", ",", ";", "=", "é", "&a", "%m",
    "%m(1)", "'a'", "\"a\"", "/* c */", "%%%", "%%a", "/%'", "&&%%", "\n%%", "%str(%%)", "''", "-", "b c",
];

/// %str / %nrstr family (C07): escapes after every character the dispatcher consumes first.
pub fn str_call_case(r: &mut Rng) -> String {
    let mut s = String::new();
    if r.chance(1, 2) {
        s.push_str(r.pick(&["%let a=", "%put ", "%m(", "x=", "%m(b=", "%eval(", "\"", "%scan(", "%upcase("]));
    }
    s.push_str(if r.chance(1, 3) { "%nrstr" } else { "%str" });
    if r.chance(1, 6) {
        s.push(' ');
    }
    s.push('(');
    let n = r.below(6);
    for _ in 0..n {
        s.push_str(r.pick(STR_INNER));
    }
    if r.chance(9, 10) {
        s.push(')');
    }
    if r.chance(1, 3) {
        s.push_str(r.pick(&[";", ")", ");", "\"", ",1)"]));
    }
    s
}

const NUMCH: &[&str] = &["0", "1", "9", ".", "e", "E", "+", "-", "a", "f", "F", "x", "X", "_", " ", "d", "b"];

/// Numeric spelling space (C08) in three contexts.
pub fn numeric_spelling(r: &mut Rng) -> String {
    let n = r.range(1, 7);
    let mut s = String::new();
    // bias to start with a digit or dot
    s.push_str(r.pick(&["0", "1", "9", ".", "1", "12", "0"]));
    for _ in 1..n {
        s.push_str(r.pick(NUMCH));
    }
    s
}

pub const NUMERIC_BOUNDARY: &[&str] = &[
    "9223372036854775807", "9223372036854775808", "18446744073709551615", "18446744073709551616",
    "18446744073709551617", "99999999999999999999", "0ffffffffffffffffx", "0fffffffffffffffx", "7fffffffffffffffx",
    "10000000000000000x", "1e308", "1.7976931348623157e308", "1.7976931348623159e308", "1e309", "4.9e-324", "2.4e-324",
    "2.5e-324", "1e-400", "0.1", "0.30000000000000004", "9007199254740993", "9007199254740992.5", "1.0000000000000002",
    "1.00000000000000011102230246251565404236316680908203125", "1.00000000000000011102230246251565404236316680908203124",
    "1.00000000000000011102230246251565404236316680908203126", "123456789012345678901234567890", "0.000000000000000000001",
    "5e-324", "1e22", "1e23", "8.5e15", "179769313486231570000000000000000000000000000000000000000000000000000000000000000000000000000000000000000000000000000000000000000000000000000000000000000000000000000000000000000000000000000000000000000000000000000000000000000000000000000000000000000000000000000000000000000000000000",
    "000000000000000000001", "0000000000000000000000042", "018446744073709551615", "0000000000000000000018446744073709551615",
    "00000000000000000000018446744073709551616", "00000000000000000000.5", "0000000000000000000001e5", "000000000000000000000ffx",
    "00000000000000000000000000000000000000001", "1e00000005", "2.5e-0000003", "1e10000000", "1e-00000000000000000001", "1E+0000000000308",
    "0x", "00x", "0e0", "0.0e-0", "1.e1", ".1e1", "1.5E+10", "1e+", "1e-", "1E", "1fx", "1Fx", "0AX", "9ax", "1ex", "1e5x", "1e5",
    "12ab", "1a", "0b", "0d", "1dx", "1e1e1", "1.2.3", "1..", "1.x", ".5x", "1.5x", "12.x", "1e-3x", "1.5e+3X", "1.5X", "1e+5x", "0.5e-1x",
];

pub fn numeric_in_context(lit: &str, r: &mut Rng) -> (String, &'static str) {
    // a literal directly followed by a character whose low byte aliases a significant ASCII one
    if r.chance(1, 12) {
        let l = soup::lookalikes();
        let a = &l[r.below(l.len())];
        return match r.below(3) {
            0 => (format!("x = {lit}{a};"), "open"),
            1 => (format!("%sysevalf({lit}{a})"), "float-eval"),
            _ => (format!("{lit}{a} {lit}"), "open"),
        };
    }
    // a literal directly followed by a letter that could continue another notation
    if r.chance(1, 10) {
        let a = r.pick(&["x", "X", "e", "E", "d", "f", "x1", "xe"]);
        return match r.below(3) {
            0 => (format!("x = {lit}{a};"), "open"),
            1 => (format!("%sysevalf({lit}{a})"), "float-eval"),
            _ => (format!("{lit}{a}"), "open"),
        };
    }
    match r.below(8) {
        0 | 1 => (format!("x = {lit};"), "open"),
        2 => (format!("{lit}"), "open"),
        3 => (format!("%eval({lit})"), "int-eval"),
        4 => (format!("%if {lit} %then x;"), "int-eval"),
        5 => (format!("%sysevalf({lit})"), "float-eval"),
        6 => (format!("%sysfunc(f({lit}))"), "float-eval"),
        _ => (format!("%eval(1 + {lit} - 2)"), "int-eval"),
    }
}

/// Random double printed in shortest or long form.
pub fn random_double_text(r: &mut Rng) -> String {
    let bits = r.next_u64() & 0x7fff_ffff_ffff_ffff;
    let mut f = f64::from_bits(bits);
    if !f.is_finite() {
        f = 1.5;
    }
    match r.below(4) {
        0 => format!("{f:e}"),
        1 => {
            let g = (r.f64() * 1e6).round() / 1000.0;
            format!("{g}")
        }
        2 => format!("{:.20e}", f),
        _ => {
            // mid-range value, long form
            let g = r.f64() * 10f64.powi(r.range(0, 30) as i32 - 15);
            format!("{g:.25}")
        }
    }
}

/// Datalines family (C06, C10, C11).
pub fn datalines_case(r: &mut Rng) -> String {
    let mut s = String::new();
    s.push_str(r.pick(&["", ";", "data a;", "x;", "\u{feff}", "a ", "/* c */", "; /* c */ ", "%m;", "* c;", ";\n"]));
    let kw = r.pick(&["datalines", "cards", "lines", "datalines4", "cards4", "lines4", "DATALINES", "Cards4", "dataline", "cards5"]);
    s.push_str(kw);
    s.push_str(r.pick(&["", " ", "\n", "\t ", " /* c */ ", "\u{a0}"]));
    s.push_str(r.pick(&[";", ";", ";", "", "x;"]));
    let n = r.below(4);
    for _ in 0..n {
        s.push_str(r.pick(&["\n1 2", "\nabc", " a;b", "\n;", ";;", ";;;", "é", "\n'x", "\n* c", "\n%let", ";a", "\n"]));
    }
    s.push_str(r.pick(&["", ";", ";;", ";;;", ";;;;", ";;;;;", ";;;x", "\n;", "\n;;;;", "\n;\n* c;", "\n;;;;\n* c;", "\n;x=1;"]));
    s
}

/// Nesting generator for C10: strings x calls x %str x statements cut off by end of input.
pub fn nesting_case(r: &mut Rng) -> String {
    let depth = r.range(1, 12);
    let mut s = String::new();
    for _ in 0..depth {
        s.push_str(r.pick(&[
            "\"", "%m(", "%str(", "%nrstr(", "%eval(", "%sysfunc(f(", "%scan(", "%substr(a,", "%let a=", "%do i=", "%if ",
            "%macro m(", "%put ", "(", "%upcase(", "a=", "%do %while(", "%sysevalf(", "%m(a=", "'", "%qsysfunc(", "%syscall f(",
            "%local ", "%copy m /", "%do;", "%then ", "%else ", "%do %until(", "%bquote(", "%superq(", "%index(", "%sysget(",
            "&a", "1", "x", " ", ",", "%m", "%n ", "%eval", "%str", "%scan",
        ]));
    }
    s
}

/// Deep call nesting (beyond 8-bit / initial-capacity thresholds of the mode stack) around a
/// small speculative / string / error case.
pub fn deep_call_case(r: &mut Rng) -> String {
    // 300 levels only rarely: the debug build's loop detector clones the mode stack on every
    // iteration, which makes very deep inputs expensive there
    let k = if r.chance(1, 40) { 300 } else { r.pick(&[6usize, 13, 20, 21, 41, 52, 60, 100]) };
    let open = r.pick(&["%a(", "%a(x,", "%a(b=", "%eval((", "%str((", "%eval(", "%sysevalf(", "%scan(a,", "%sysfunc(f(", "%substr(a,", "%upcase(", "\"%a("]);
    let prefix = r.pick(&["", "", "%if ", "%do i=1 %to ", "x = ", "%let a=", "%put "]);
    let inner = match r.below(7) {
        5 => r.pick(&["1 %then %put x;", "%let a=1;", "1 %to 2;", "a %then", " %do;", "1 %by 2; x", "%end;"]).to_string(),
        6 => r.pick(&["1", "a", "", " ", "&v", "'s'"]).to_string(),
        0 => speculation_case(r),
        1 => literal_case(r),
        2 => format!("\"{}\"", r.pick(&["%b ", "&x ", "%b(1) ", "a \"\"b", "%b /*c*/ "])),
        3 => r.pick(&["%b ", "%b x", "x y", "%let a b;", "'q'", "%b /*c*/ y", ""]).to_string(),
        _ => nesting_case(r),
    };
    let close = if open.ends_with("((") || open.ends_with("f(") { "))" } else if open.starts_with('"') { ")\"" } else { ")" };
    let closers = match r.below(5) {
        0 => 0,
        1 => r.below(k + 1),
        _ => k,
    };
    format!("{}{}{}{};", prefix, open.repeat(k), inner, close.repeat(closers))
}

/// Many nested, unclosed constructs that are all abandoned at once (by a statement keyword, a
/// `;`, or the end of input), optionally inside a string expression: long runs of main-loop
/// iterations that consume no input, and a deep stack to unwind.
pub fn cascade_case(r: &mut Rng) -> String {
    let k = r.pick(&[3usize, 15, 16, 17, 20, 39, 40, 41, 42, 64, 81, 100]);
    let open = r.pick(&["%eval(", "%sysevalf(", "%sysfunc(f(", "%m(", "%m(a=", "%str(", "%upcase(", "%scan(a,", "%eval((", "%if ", "%nrstr(", "%qsysfunc(f(", "%m(a b,"]);
    let prefix = r.pick(&["", "title \"", "x = \"pre ", "%let v=", "%put ", "\"", "%macro q; ", "%do i=1 %to "]);
    let breaker = r.pick(&["%let x=1;", "%mend;", "%put done;", ";", "%end;", "%macro z;", "", "%do;", "%if 1 %then", "%global g;", "\"", "%*c;", "%lbl:"]);
    let tail = r.pick(&["", " tail\";", " y=2;", "\" ;", "\n"]);
    format!("{}{}{}{}", prefix, open.repeat(k), breaker, tail)
}

/// One very long text section (beyond 32 Ki / 64 Ki / 128 Ki bytes, with line breaks inside and
/// after those marks) in each text-scanning mode, plain or nested in enclosing constructs that
/// still owe their closers.
pub fn long_section_case(r: &mut Rng, k: usize) -> String {
    let len = [33_000usize, 66_000, 140_000][k % 3];
    let mut body = String::with_capacity(len + 100);
    let word = r.pick(&["abc ", "x1 y2 ", "é ", "a=b, ", "q "]);
    while body.len() < len {
        body.push_str(word);
        if body.len() % 71 < word.len() {
            body.push('\n');
        }
    }
    body.push_str("\n tail ");
    let (open, close) = match (k / 3) % 10 {
        0 => ("title \"&a ", "\";"),
        1 => ("x = \"", "\";"),
        2 => ("%a(1,%b(2,%c(", ")));"),
        3 => ("%let v=", ";"),
        4 => ("%put %str(", ");"),
        5 => ("/* ", " */ x;"),
        6 => ("datalines;\n", "\n;\nrun;"),
        7 => ("title \"pre %a(%b(", "))\";"),
        8 => ("%outer(dsn=a, where=\"x = %inner(lib ", ")\");"),
        _ => ("%macro m(p=", "); %mend;"),
    };
    match r.below(4) {
        0 => format!("{open}{body}"),
        _ => format!("{open}{body}{close}"),
    }
}

/// A run of 15...600 comment / white-space tokens between two tokens that belong together (a name
/// and its `(`, `=`, `:`, a keyword and its operand): every look-ahead and look-behind has to get
/// across it.
pub fn trivia_run_case(r: &mut Rng) -> String {
    let n = r.pick(&[15usize, 16, 17, 31, 32, 33, 64, 100, 600]);
    let unit = r.pick(&["/*c*/ ", "/*c*/\n", "/**/ ", "/* ; */\t"]);
    let (head, tail) = r.pick(&[
        ("%lbl", ": x;"),
        ("x %lbl", ":"),
        ("%do", " i=1 %to 2; %end;"),
        ("%do", ";%end;"),
        ("%local", " a b;"),
        ("%global", " / readonly a=1;"),
        ("%m", "(1, b=2)"),
        ("%m(a", "=1)"),
        ("%let a", "=1;"),
        ("%let", " a=1;"),
        ("%eval", "(1+1)"),
        ("%scan(a", ",1)"),
        ("%macro m", "(p); %mend;"),
        ("%macro m(p", "=1); %mend;"),
        ("data a; x=1", "; datalines;\n1\n;"),
        ("%if 1", " %then y;"),
        ("%put a", ";"),
        ("%sysfunc", "(f(1))"),
        ("%str", "(a)"),
        ("title \"%m", "(1)\";"),
    ]);
    let pre = r.pick(&["", "", "a; ", "%macro q; ", "x = "]);
    format!("{pre}{head}{}{tail}", unit.repeat(n))
}

/// A source that raises very many diagnostics before a recoverable missing symbol.
pub fn many_errors_case(r: &mut Rng) -> String {
    let unit = r.pick(&["x = 'zz'x;\n", "%let a b;\n", "%eval 1);\n", "1e;", "0ff ", "%scan(a);\n"]);
    let n = r.pick(&[33_000usize, 66_000, 70_000]);
    let tail = r.pick(&["%let a b;", "%do i 1 %to 2; %end;", "%eval 1)", "%copy m x;", "%return x", "%m("]);
    format!("{}{}", unit.repeat(n), tail)
}

/// Error-under-speculation family for C09 plus label / MacroSep neighbours.
pub fn error_case(r: &mut Rng, corpus: &Corpus) -> String {
    match r.below(6) {
        0 | 1 => speculation_case(r),
        2 => nesting_case(r),
        3 => {
            let a = r.pick(&["%let", "%let a", "%let =1;", "%do i", "%do i 1 %to", "%scan(a", "%scan(a b)", "%substr(", "%eval", "%eval 1",
                "%str a", "%copy m", "%copy m x;", "%end x", "%return x", "%do %while x", "%do %while(1) x", "%sysfunc", "%sysfunc(", "%sysfunc(f",
                "%sysfunc(f(1)", "%syscall", "%syscall f", "%local /", "%global / readonly", "%macro", "%macro 1", "%macro m(1", "%macro m(a=", "%mend x y"]);
            let b = r.pick(&["", ";", " x", " %lbl:", "\n%lbl: x", " %put a;", ")", "(", "=", ",", " %then", "%end;", "\"", "'", " &a", "/*"]);
            format!("{a}{b}")
        }
        4 => {
            let base = if corpus.small.is_empty() { soup::macro_soup(r, 6) } else { r.pick_ref(&corpus.small).clone() };
            mutate::truncate_at(&base, r)
        }
        _ => soup::macro_soup(r, 8),
    }
}

/// Empty-token / line-start shapes for C05.
pub fn empty_token_case(r: &mut Rng) -> String {
    let mut s = String::new();
    if r.chance(1, 6) {
        s.push('\u{feff}');
    }
    let n = r.range(1, 5);
    for _ in 0..n {
        s.push_str(r.pick(&[
            "\n", "%eval(", "%eval(\n", "%let a\n", "%let\n", "%do i\n=", "%scan(a\n", "%if = 1 %then", "%if\n= 1", "%eval(=\n)",
            "%eval( eq )", "%eval(\nand\n)", "%str\n", "\"\n", "'a\n'", "/*\n*/", "*\n;", "%* c\n;", "%return\n", "%end\n x",
            "datalines;\n", "datalines;\n\n;", "%m(\n", "%m(a\n=", "x\n", "%sysfunc(f(\n", "%do\n", "%do;\n", "%copy m\n", "%eval(1 or\n)",
        ]));
    }
    s
}

/// One targeted draw for a structural property.
pub fn structural_targeted(prop: &str, r: &mut Rng, corpus: &Corpus, tier: Tier) -> String {
    let base = |r: &mut Rng| super::general(r, corpus, tier).0;
    match prop {
        "C02" => match r.below(5) {
            3 if r.chance(1, 8) => trivia_run_case(r),
            // long runs of one short construct (hundreds to thousands of repetitions)
            4 if r.chance(1, 6) => {
                let idx = r.below(super::FAMILIES.len());
                let n = r.pick(&[300usize, 600, 1100, 2500]);
                let mut s = super::family(idx, n);
                if r.chance(1, 3) {
                    s.push_str(r.pick(&[" tail;", "x y", ");", "\n"]));
                }
                s
            }
            4 if r.chance(1, 12) => {
                // deep nests that are closed again, followed by ordinary code
                let k = r.pick(&[300usize, 700, 1500]);
                let open = r.pick(&["%a(", "%a(x,", "%eval(", "%str("]);
                format!("{}{};\ndata a; x = 1; run;\n", open.repeat(k), ")".repeat(k))
            }
            4 => deep_call_case(r),
            0 => speculation_case(r),
            1 => {
                let b = base(r);
                multibyte_variant(&b, r)
            }
            2 => datalines_case(r),
            _ => {
                let b = base(r);
                format!("\u{feff}{b}")
            }
        },
        "C03" => match r.below(5) {
            0 => {
                let b = speculation_case(r);
                multibyte_variant(&b, r)
            }
            1 => {
                let b = datalines_case(r);
                multibyte_variant(&b, r)
            }
            2 => {
                let b = literal_case(r);
                multibyte_variant(&b, r)
            }
            3 => format!("{}{}", r.pick(MB), r.pick(&["$é10.", "$жж5.2", "&&&&é", "&日.x", "%é(1)", "'é'dt", "\"é\"x", "1é", "1e5é", "0ffé", "$é", "$éé10x"])),
            _ => {
                let b = base(r);
                multibyte_variant(&b, r)
            }
        },
        "C04" | "C05" => match r.below(7) {
            6 => {
                // separator / label neighbourhoods (matters in the macro_sep build: insert_token)
                let k = r.below(1 << 20);
                let b = crate::diffprops::diff_input("C18", r.next_u64(), k, tier, corpus);
                if r.chance(1, 2) { lf_variant(&b, r) } else { b }
            }
            0 => empty_token_case(r),
            1 => {
                let b = speculation_case(r);
                lf_variant(&b, r)
            }
            2 => {
                let b = str_call_case(r);
                lf_variant(&b, r)
            }
            3 => {
                let b = datalines_case(r);
                lf_variant(&b, r)
            }
            4 => {
                let p = grammar::gen_program(r, tier.gcfg());
                let t = mutate::truncate_at(&p.s, r);
                lf_variant(&t, r)
            }
            _ => {
                let b = base(r);
                lf_variant(&b, r)
            }
        },
        "C06" => match r.below(4) {
            0 => datalines_case(r),
            1 => literal_case(r),
            2 => nesting_case(r),
            _ => {
                let k = r.below(soup::short_space_size(soup::SHORT_ALPHABET_40, 3));
                soup::short_string(soup::SHORT_ALPHABET_40, 3, k)
            }
        },
        "C07" => match r.below(5) {
            0 | 1 => literal_case(r),
            2 => hex_case(r),
            _ => str_call_case(r),
        },
        "C09" => match r.below(12) {
            11 if r.chance(1, 3) => trivia_run_case(r),
            3 | 4 => {
                // line feeds inside speculative regions (comments, trivia before '(' / '=')
                let b = if r.chance(1, 2) { speculation_case(r) } else { error_case(r, corpus) };
                let b = if r.chance(1, 3) { format!("\"{b}") } else { b };
                lf_variant(&b, r)
            }
            0 => deep_call_case(r),
            1 | 2 => {
                // label / separator neighbourhoods with errors nearby (insert_token index shifting)
                let k = r.below(1 << 20);
                let b = crate::diffprops::diff_input("C18", r.next_u64(), k, tier, corpus);
                let e = error_case(r, corpus);
                match r.below(3) {
                    0 => format!("{e} {b}"),
                    1 => format!("{b} {e}"),
                    _ => b,
                }
            }
            _ => error_case(r, corpus),
        },
        "C10" => match r.below(5) {
            2 if r.chance(1, 8) => trivia_run_case(r),
            4 => cascade_case(r),
            3 => deep_call_case(r),
            0 => nesting_case(r),
            1 => {
                let p = grammar::gen_program(r, tier.gcfg());
                mutate::truncate_at(&p.s, r)
            }
            _ => datalines_case(r),
        },
        _ => base(r),
    }
}
