//! Differential properties: C18 (macro_sep only adds separators) and C19 (the result is a
//! function of the source alone). Each build produces block hashes of canonical dumps over the
//! same deterministic input sequence; the driver compares the files of different builds.

use crate::gen::mutate::Corpus;
use crate::gen::targeted as tg;
use crate::gen::{self, grammar, soup, Tier};
use crate::json::J;
use crate::oracle::{meta, Finding};
use crate::props::Ctx;
use crate::rng::Rng;
use crate::run::{self, exec, exec_plain, Outcome};
use crate::stats::{clip, Stats};
use crate::view::{canon, hash128, render, CanonOpts, View};
use sas_lexer::{TokenChannel, TokenType};
use std::sync::{Arc, Barrier};

pub const BLOCK: usize = 512;

pub fn total_inputs(prop: &str, tier: Tier, scale: f64) -> usize {
    let t = match (prop, tier) {
        ("C18", Tier::Quick) => 200_000,
        ("C18", Tier::Thorough) => 4_000_000,
        (_, Tier::Quick) => 160_000,
        (_, Tier::Thorough) => 3_000_000,
    };
    (((t as f64) * scale) as usize).max(BLOCK)
}

const SEP_HEADS: &[&str] = &[
    "", "x", "x ", "data a", "a=1", "a=1 ", ";", "; ", "x /* c */", "x\n", "%m", "%m ", "%m(a)", "%m(a) ", "&a", "&a ", "'s'", "\"s\"",
    "%lbl:", "%lbl: ", "%if 1 %then", "%if 1 %then ", "%else", "%else ", "%let a=1;", "%put x", "%put x;", "%do;", "%end;", "%end", ")", "1",
    "* c;", "%* c;", "x * c;", "; %* c;", "%then %* c;", "; * c;", "%else * c;", "; \\", "; `", "%then €", "%lbl: §", "%eval(1)", "%str(a)", "\"&a", "%m(", "%m(a ", "%macro m;", "%mend;", "%do i=1 %to 2", "%goto l", "%return",
    "%sysfunc(f(1))", "%let a=", "%let a", "%if", "%scan(a", "datalines;\n1\n;", "%m:", "%m :", "x%m",
];
const SEP_STATS: &[&str] = &[
    "%let a=1;", "%put x;", "%if 1 %then y;", "%else z;", "%do;", "%end;", "%macro m;", "%mend;", "%local a;", "%global a;", "%goto l;",
    "%return;", "%abort;", "%copy m/s;", "%display w;", "%input a;", "%symdel a;", "%syscall f(1);", "%sysexec ls;", "%syslput a=1;",
    "%sysmacdelete m;", "%sysmstoreclear;", "%sysrput a=1;", "%window w;", "%lbl:", "%lbl :", "%lbl: x;", "%lbl\n:", "%lbl /*c*/\n:",
    "%lbl\n/*c*/ : x;", "%lbl /* a\nb */ /*c*/:", "%lbl\n\n  :", "%then", "%to 2", "%by 1",
    "%until(1)", "%while(1)", "%include f;", "%list;", "%run;", "%m", "%m(1)", "%eval(1)", "%do %while(1);", "%do i=1 %to 2;", "%LET a=1;",
    "%Lbl:", "%é:", "%let", "%if", "%do",
    // almost-labels and labels behind awkward comments: a colon that is inside a comment, a string
    // or parentheses does not make the name before it a label
    "%m /*/: */ b;", "%m /*:*/ b;", "%m /*/ : */", "%m /* c */ /*/:*/ x", "%m ':' x;", "%m \":\" x;", "%m(a):", "%m (:) x;", "%m\n/*:*/\nb;", "%m /*/",
    "%lbl /*/*/:", "%lbl /*/ x */:", "%lbl /*/ : */ :", "%lbl /*:*/ : x;", "%lbl /* c */ /* : */\n: y;", "%m /*/: */: z;", "%m %* :;", "%m * : ;",
];

/// The k-th input of the differential sequence for `prop` (independent of lexer behaviour).
pub fn diff_input(prop: &str, seed: u64, k: usize, tier: Tier, corpus: &Corpus) -> String {
    let pid: u64 = prop.bytes().fold(0u64, |a, b| a * 131 + u64::from(b));
    let mut r = Rng::derive(seed, k as u64, pid, 1);
    match prop {
        "C18" => match r.below(10) {
            0..=3 => {
                // separator family: open-code fragment x {nothing, WS, comment} x statement/label
                let n = r.range(1, 4);
                let mut s = String::new();
                for _ in 0..n {
                    s.push_str(r.pick(SEP_HEADS));
                    s.push_str(r.pick(&["", "", " ", "\n", "/* c */", " /* c */ ", "/*/ c */", " /*/*/ ", "/*:*/", " /*/: */ "]));
                    s.push_str(r.pick(SEP_STATS));
                    s.push_str(r.pick(&["", " ", "\n"]));
                }
                s
            }
            4 if r.chance(1, 3) => {
                // trivia runs: tens to hundreds of hidden / comment tokens between the token that
                // decides whether a separator is due and the statement keyword or label
                let head = r.pick(&[";", "x = 1;", "%if 1 %then", "%else", "%lbl:", "x", "data a", "%m", "%put y;", "%let a=1", ")"]);
                let unit = r.pick(&["/* c */ ", "/**/\n", " /*c*/", "/* a */\t/* b */ "]);
                let k = r.pick(&[15usize, 31, 32, 33, 40, 63, 64, 65, 100, 300, 600, 1100]);
                format!("{head} {}{}", unit.repeat(k), r.pick(SEP_STATS))
            }
            4 => tg::error_case(&mut r, corpus),
            5 | 6 => grammar::gen_program(&mut r, tier.gcfg()).s,
            _ => gen::general(&mut r, corpus, tier).0,
        },
        _ => match r.below(40) {
            0 => {
                // big inputs: vector growth paths
                if corpus.large.is_empty() {
                    let mut s = String::new();
                    while s.len() < 20_000 {
                        s.push_str(&grammar::gen_program(&mut r, tier.gcfg()).s);
                        s.push('\n');
                    }
                    s
                } else {
                    let p = r.pick_ref(&corpus.large);
                    let cb = crate::gen::mutate::truncate_at(p, &mut r);
                    cb
                }
            }
            1 => {
                let mut s = String::new();
                let target = r.range(4_000, 30_000);
                while s.len() < target {
                    s.push_str(&gen::general(&mut r, corpus, tier).0);
                    s.push_str(r.pick(&[";\n", "\n", " ", ");\n"]));
                }
                s
            }
            2 => {
                if r.chance(1, 2) {
                    gen::family(r.below(gen::FAMILIES.len()), r.range(1, 400))
                } else {
                    tg::deep_call_case(&mut r)
                }
            }
            3..=6 => tg::speculation_case(&mut r),
            7..=9 => {
                // advance_by short reads: runs of & / datalines terminators / numerics at end of input
                format!(
                    "{}{}",
                    r.pick(&["", "x ", "%put ", "%m(", "\"", "%let a="]),
                    r.pick(&["&", "&&", "&&&", "&&&&&", "datalines4;\n1;;;", "datalines4;\n;;", "cards4;\n;", "1e", "0ff", "$a1", "$a1.", "%eval(1 an", "%eval(a **", "%eval(a <", "**", "<", "=", "$é"])
                )
            }
            10..=13 => tg::error_case(&mut r, corpus),
            14 => {
                // numeric spellings whose value depends on exact rounding (long mantissas, halfway
                // cases) and notation ties: parser options must not differ between builds
                let lit = match r.below(4) {
                    0 => tg::NUMERIC_BOUNDARY[r.below(tg::NUMERIC_BOUNDARY.len())].to_string(),
                    1 => tg::numeric_spelling(&mut r),
                    2 => {
                        let n = r.range(17, 32);
                        let mut s = String::new();
                        for i in 0..n {
                            if i == 0 {
                                s.push((b'1' + r.below(9) as u8) as char);
                            } else {
                                s.push((b'0' + r.below(10) as u8) as char);
                            }
                        }
                        if r.chance(1, 2) {
                            let at = r.range(1, s.len() - 1);
                            s.insert(at, '.');
                        }
                        s
                    }
                    _ => tg::random_double_text(&mut r),
                };
                tg::numeric_in_context(&lit, &mut r).0
            }
            18 => {
                // text sections a scanner may skip in bulk (data lines, comments, strings, macro
                // text) with multi-byte characters at every distance from the line ends
                let open = r.pick(&["data a; input x $; datalines;\n", "cards;\n", "datalines4;\n", "/* ", "x = '", "%let t = ", "%put ", "title \"", "%m(", "* "]);
                let close = match open {
                    "data a; input x $; datalines;\n" | "cards;\n" => "\n;\nrun;",
                    "datalines4;\n" => "\n;;;;\nrun;",
                    "/* " => " */ y = 1;",
                    "x = '" => "'; y = 2;",
                    "title \"" => "\"; y = 3;",
                    "%m(" => "); y = 4;",
                    _ => "; y = 5;",
                };
                let mut s = String::from(open);
                for _ in 0..r.range(1, 6) {
                    for _ in 0..r.range(0, 40) {
                        s.push((b'a' + r.below(26) as u8) as char);
                    }
                    s.push_str(r.pick(&["é", "日", "😀", "ж", "ß", "\u{a0}", "", "", "é日", "😀é"]));
                    for _ in 0..r.below(8) {
                        s.push((b'0' + r.below(10) as u8) as char);
                    }
                    s.push_str(r.pick(&["\n", "\n", "\r\n", " ", "é\n", "日\n"]));
                }
                s.push_str(close);
                s
            }
            15..=17 => soup::macro_soup(&mut r, 12),
            _ => gen::general(&mut r, corpus, tier).0,
        },
    }
}

/// Canonical outcome bytes for one input in this build.
pub fn outcome_bytes(prop: &str, s: &str, st: Option<&mut Stats>) -> Vec<u8> {
    let ex = exec(s);
    let bytes = match &ex.outcome {
        Outcome::Ok(res) => canon(
            s,
            res,
            CanonOpts { strip_macro_sep: prop == "C18" && run::MACRO_SEP, fold_literal_case: false },
        ),
        Outcome::Panic(p) => format!("PANIC {}", if prop == "C18" { String::new() } else { p.signature() }).into_bytes(),
        Outcome::Budget(b) => format!("BUDGET {}", b.counter).into_bytes(),
        Outcome::Refused(e) => format!("REFUSED {e}").into_bytes(),
    };
    if let Some(st) = st {
        st.observe_exec(&ex);
        st.cases += 1;
        if let Some(res) = ex.result() {
            let v = View::new(s, res);
            st.observe_view(&v);
            match prop {
                "C18" => {
                    if run::MACRO_SEP {
                        let fs = meta::check_macro_sep_placement(res);
                        for f in &fs {
                            st.violation(f, &[s]);
                        }
                        let seps = v.toks.iter().filter(|t| t.ty == TokenType::MacroSep).count();
                        if seps > 0 {
                            st.count("macro_sep_tokens", seps as i128);
                            // label path (insert_token) vs keyword path
                            for (i, t) in v.toks.iter().enumerate() {
                                if t.ty == TokenType::MacroSep {
                                    if v.toks.get(i + 1).is_some_and(|n| n.ty == TokenType::MacroLabel) {
                                        st.count("macro_sep_before_label", 1);
                                    }
                                }
                            }
                            if !res.errors.is_empty() {
                                st.count("inputs_with_sep_and_errors", 1);
                            }
                            st.nontrivial(s.as_bytes(), || {
                                let mut j = J::obj();
                                j.set("input", clip(s, 240));
                                j.set("observed", clip(&render(s, res, 30), 500));
                                j
                            });
                        }
                    } else {
                        // plain build: a MacroSep must never appear
                        if v.toks.iter().any(|t| t.ty == TokenType::MacroSep) {
                            st.violation(&Finding::new("C18.sep-in-plain", "", "MacroSep token in a build without the macro_sep feature".into()), &[s]);
                        }
                        // same non-triviality proxy so the plain side reports comparable numbers:
                        // a macro statement keyword not preceded by ';'
                        let mut prev: Option<TokenType> = None;
                        let mut hit = false;
                        for t in &v.toks {
                            if t.ch != TokenChannel::DEFAULT {
                                continue;
                            }
                            let is_stat = (t.ty as u16) >= TokenType::KwmAbort as u16 && (t.ty as u16) <= TokenType::KwmRun as u16;
                            if (is_stat || t.ty == TokenType::MacroLabel) && !matches!(prev, None | Some(TokenType::SEMI)) {
                                hit = true;
                            }
                            prev = Some(t.ty);
                        }
                        if hit {
                            st.nontrivial(s.as_bytes(), || {
                                let mut j = J::obj();
                                j.set("input", clip(s, 240));
                                j
                            });
                        }
                    }
                }
                _ => {
                    if v.toks.len() >= 50 || ex.report.rollbacks > 0 || !run::HOOKS {
                        st.nontrivial(s.as_bytes(), || {
                            let mut j = J::obj();
                            j.set("input", clip(s, 200));
                            j.set("tokens", v.toks.len());
                            j.set("rollbacks", ex.report.rollbacks);
                            j
                        });
                    }
                }
            }
        }
    }
    bytes
}

/// Block hashes for this shard; returns (block index, hash) pairs.
pub fn dump_blocks(ctx: &Ctx, st: &mut Stats) -> Vec<(usize, u128)> {
    let total = total_inputs(ctx.prop, ctx.tier, ctx.scale);
    let nblocks = total.div_ceil(BLOCK);
    let mut out = Vec::new();
    // SLV_REVERSE_BLOCKS: same blocks, opposite order — what this process has lexed before a given
    // input is then (almost) the complement of what the forward process had lexed before it
    let mut order: Vec<usize> = (ctx.shard..nblocks).step_by(ctx.nshards).collect();
    if std::env::var_os("SLV_REVERSE_BLOCKS").is_some() {
        order.reverse();
    }
    for b in order {
        let mut acc: Vec<u8> = Vec::with_capacity(BLOCK * 32);
        for k in b * BLOCK..((b + 1) * BLOCK).min(total) {
            let s = diff_input(ctx.prop, ctx.seed, k, ctx.tier, ctx.corpus);
            acc.extend_from_slice(&hash128(s.as_bytes()).to_le_bytes());
            let ob = outcome_bytes(ctx.prop, &s, Some(st));
            acc.extend_from_slice(&hash128(&ob).to_le_bytes());
        }
        out.push((b, hash128(&acc)));
    }
    out
}

/// Per-input detail of one block (used by the driver to localise a differing block).
pub fn block_detail(prop: &str, seed: u64, tier: Tier, scale: f64, corpus: &Corpus, b: usize) -> Vec<(usize, u128, u128, String)> {
    let total = total_inputs(prop, tier, scale);
    let mut out = Vec::new();
    for k in b * BLOCK..((b + 1) * BLOCK).min(total) {
        let s = diff_input(prop, seed, k, tier, corpus);
        let ob = outcome_bytes(prop, &s, None);
        let class = if ob.starts_with(b"PANIC") || ob.starts_with(b"BUDGET") || ob.starts_with(b"REFUSED") {
            String::from_utf8_lossy(&ob).chars().take(120).collect()
        } else {
            "ok".to_string()
        };
        out.push((k, hash128(s.as_bytes()), hash128(&ob), class));
    }
    out
}

/// A source of the same length with one `%keyword` replaced by another of equal length (so that
/// everything else sits at the same offsets).
fn related_variant(s: &str, r: &mut Rng) -> String {
    const SWAPS: &[(&str, &str)] = &[
        ("%then", "%scan"), ("%scan", "%then"), ("%put", "%cnt"), ("%let", "%put"), ("%eval", "%else"), ("%do", "%to"),
        ("%if", "%by"), ("%str", "%end"), ("%end", "%str"), ("%local", "%trim("), ("%mend", "%left"), ("%m", "%n"), ("%a(", "%b("),
        ("%sysfunc", "%sysexec"), ("%upcase", "%unquot("), ("%macro", "%mymac"),
    ];
    let lower = s.to_ascii_lowercase();
    let mut cands: Vec<(usize, &str, &str)> = Vec::new();
    for (a, b) in SWAPS {
        if a.len() != b.len() {
            continue;
        }
        let mut from = 0;
        while let Some(p) = lower[from..].find(a) {
            cands.push((from + p, a, b));
            from += p + a.len();
        }
    }
    if cands.is_empty() {
        // change one ASCII letter instead
        let mut out = s.to_string();
        if let Some((i, c)) = s.char_indices().filter(|(_, c)| c.is_ascii_lowercase()).nth(r.below(8)) {
            out.replace_range(i..i + 1, if c == 'z' { "a" } else { "z" });
        }
        return out;
    }
    let (p, a, b) = cands[r.below(cands.len())];
    let mut out = s.to_string();
    out.replace_range(p..p + a.len(), b);
    out
}

// ---------------------------------------------------------------------------------------------
// C19 in-process: history and schedule independence

/// history: each input is lexed first in a fresh thread, after K other inputs, and twice in a row
/// Result plus the hooked end-of-input configuration (mode stack, macro nesting level, pending
/// statement frames, live checkpoint) and the checkpoint/rollback decision string: everything
/// that is observable about one call. For the history and schedule relations of C19 all of it
/// must be a function of the source text alone.
pub fn outcome_and_state(s: &str, st: Option<&mut Stats>) -> Vec<u8> {
    let ex = exec(s);
    let mut bytes = match &ex.outcome {
        Outcome::Ok(res) => canon(s, res, CanonOpts::default()),
        Outcome::Panic(p) => format!("PANIC {}", p.signature()).into_bytes(),
        Outcome::Budget(b) => format!("BUDGET {}", b.counter).into_bytes(),
        Outcome::Refused(e) => format!("REFUSED {e}").into_bytes(),
    };
    if let Some(e) = &ex.report.end_of_input {
        bytes.extend_from_slice(format!("|EOI {:?} {} {:?} {}", e.modes, e.macro_nesting_level, e.pending_stat_stack, e.checkpoint_live).as_bytes());
    }
    bytes.extend_from_slice(format!("|D {} it={} tok={} err={}", ex.report.decisions, ex.report.main_iters, ex.report.tokens, ex.report.errors).as_bytes());
    if let Some(st) = st {
        st.observe_exec(&ex);
        st.cases += 1;
        if let Some(res) = ex.result() {
            let v = View::new(s, res);
            st.observe_view(&v);
            let nontrivial = v.toks.len() >= 50 || ex.report.rollbacks > 0;
            if nontrivial {
                st.nontrivial(s.as_bytes(), || {
                    let mut j = J::obj();
                    j.set("input", clip(s, 200));
                    j.set("tokens", v.toks.len());
                    j.set("rollbacks", ex.report.rollbacks);
                    j
                });
            }
        }
    }
    bytes
}

pub fn c19_history(ctx: &Ctx, st: &mut Stats) {
    // "regardless of the thread it runs on": a call whose native stack need follows the input
    // returns on a thread with a large stack and kills the process on one with a small stack.
    // The harness threads have 64 MiB; the hooks record how deep the call actually went.
    for fi in (ctx.shard..crate::gen::FAMILIES.len()).step_by(ctx.nshards) {
        for n in [600usize, 3000] {
            let s = crate::gen::family(fi, n);
            if s.len() > 200_000 {
                continue;
            }
            let ex = run::exec_painted(&s);
            st.count("thread_stack_probes", 1);
            if ex.stack_used > crate::props::STACK_LIMIT {
                st.violation(
                    &Finding::new("C19.thread-stack", "", format!("the call used {} bytes of native stack (family {} n={n}): whether it returns depends on the stack size of the calling thread", ex.stack_used, crate::gen::FAMILIES[fi].0)),
                    &[&s],
                );
            }
        }
    }
    let mut r = ctx.rng(5);
    let n = ctx.draws(30_000, 600_000);
    let mut recent: Vec<String> = Vec::new();
    let mut reuse = String::with_capacity(4096);
    for i in 0..n {
        let k = r.below(total_inputs("C19", ctx.tier, ctx.scale));
        let s = diff_input("C19", ctx.seed, k, ctx.tier, ctx.corpus);
        if s.len() > 8000 {
            continue;
        }
        let base_res = outcome_bytes("C19", &s, Some(st));
        let base = outcome_and_state(&s, None);
        // after other inputs
        for o in recent.iter().rev().take(r.range(1, 4)) {
            let _ = exec(o);
        }
        let again = outcome_and_state(&s, None);
        let twice = outcome_and_state(&s, None);
        // hooks disarmed (plain call) must give the same result
        let plain = match exec_plain(&s) {
            Ok(res) => canon(&s, &res, CanonOpts::default()),
            Err(e) => e.into_bytes(),
        };
        st.count("history_comparisons", 3);
        if base != again || base != twice {
            let what = if base.split(|b| *b == b'|').next() == again.split(|b| *b == b'|').next() && base.split(|b| *b == b'|').next() == twice.split(|b| *b == b'|').next() { "state" } else { "result" };
            st.violation(&Finding::new("C19.history", what, "the result (or the hooked lexer configuration / work counters) for the same source changed after other calls in the process".into()), &[&s]);
        }
        if !(base_res.starts_with(b"PANIC") || base_res.starts_with(b"BUDGET")) && plain != base_res {
            st.violation(&Finding::new("C19.hooks-armed-vs-disarmed", "", "result differs between hooks armed and disarmed".into()), &[&s]);
        }
        // fresh thread
        if i % 16 == 0 {
            let s2 = s.clone();
            let fresh = std::thread::spawn(move || outcome_and_state(&s2, None)).join();
            st.count("fresh_thread_comparisons", 1);
            match fresh {
                Ok(f) if f == base => {}
                _ => st.violation(&Finding::new("C19.thread", "", "result differs on a fresh thread".into()), &[&s]),
            }
        }
        // the same text at every address alignment (mod 16) and at the very end of an allocation:
        // the source is a value, where it happens to live in memory is not part of it
        if i % 2 == 0 && s.len() < 4000 {
            let mut holder = String::with_capacity(s.len() + 32);
            for off in 0..16usize {
                holder.clear();
                for _ in 0..off {
                    holder.push(' ');
                }
                holder.push_str(&s);
                let addr = holder.as_ptr() as usize + off;
                let got = outcome_and_state(&holder[off..], None);
                st.count("alignment_comparisons", 1);
                st.count(&format!("alignment_mod8_{}", addr % 8), 1);
                if got != base {
                    st.violation(
                        &Finding::new("C19.alignment", "", format!("the result depends on the address of the source text (offset {off} into its buffer, address mod 8 = {})", addr % 8)),
                        &[&s],
                    );
                    break;
                }
            }
            // exact-size boxed copy: nothing readable behind the last byte
            let boxed: Box<str> = s.clone().into_boxed_str();
            if outcome_and_state(&boxed, None) != base {
                st.violation(&Finding::new("C19.alignment", "exact-size", "the result differs for an exact-size copy of the source".into()), &[&s]);
            }
        }
        // one String buffer reused for consecutive, related sources (same address, same offsets):
        // the usual way a caller reads many files; the result must not depend on the previous
        // content of the buffer
        if i % 4 == 0 && s.len() < 2000 {
            let variant = related_variant(&s, &mut r);
            let expect_variant = outcome_and_state(&variant, None);
            reuse.clear();
            reuse.push_str(&s);
            let _ = outcome_bytes("C19", &reuse, None);
            reuse.clear();
            reuse.push_str(&variant);
            let got = outcome_and_state(&reuse, None);
            st.count("buffer_reuse_comparisons", 1);
            if got != expect_variant {
                st.violation(
                    &Finding::new("C19.buffer-reuse", "", "the result depends on what the same buffer held during the previous call".into()),
                    &[&s, &variant],
                );
            }
        }
        if recent.len() < 64 {
            recent.push(s);
        } else {
            let j = r.below(64);
            recent[j] = s;
        }
    }
}

/// schedule: `threads` threads lex a shared list in different orders behind a barrier; every result
/// must equal the sequential baseline. Returns (calls, overlapping call pairs observed).
pub fn c19_schedule(seed: u64, tier: Tier, scale: f64, corpus: &Corpus, threads: usize, st: &mut Stats) {
    let rounds = if tier == Tier::Quick { 6 } else { 60 };
    let per = ((if tier == Tier::Quick { 400.0 } else { 1500.0 }) * scale.min(1.0)).max(16.0) as usize;
    let mut r = Rng::derive(seed, 19, 19, 19);
    let t0 = std::time::Instant::now();
    for round in 0..rounds {
        let total = total_inputs("C19", tier, scale);
        let inputs: Arc<Vec<String>> = Arc::new(
            (0..per)
                .map(|_| diff_input("C19", seed, r.below(total), tier, corpus))
                .filter(|s| s.len() <= 40_000)
                .collect(),
        );
        let baseline: Arc<Vec<Vec<u8>>> = Arc::new(inputs.iter().map(|s| outcome_and_state(s, Some(st))).collect());
        let barrier = Arc::new(Barrier::new(threads));
        let mut handles = Vec::new();
        for t in 0..threads {
            let (inputs, baseline, barrier) = (inputs.clone(), baseline.clone(), barrier.clone());
            let tseed = seed ^ ((round as u64) << 32) ^ t as u64;
            handles.push(std::thread::spawn(move || {
                let mut rr = Rng::new(tseed);
                let mut order: Vec<usize> = (0..inputs.len()).collect();
                for i in (1..order.len()).rev() {
                    order.swap(i, rr.below(i + 1));
                }
                let mut bad: Vec<usize> = Vec::new();
                let mut spans: Vec<(u64, u64)> = Vec::with_capacity(order.len());
                barrier.wait();
                for &i in &order {
                    let a = t0.elapsed().as_nanos() as u64;
                    let got = outcome_and_state(&inputs[i], None);
                    let b = t0.elapsed().as_nanos() as u64;
                    spans.push((a, b));
                    if got != baseline[i] {
                        bad.push(i);
                    }
                }
                (bad, spans)
            }));
        }
        let mut all_spans: Vec<Vec<(u64, u64)>> = Vec::new();
        for h in handles {
            match h.join() {
                Ok((bad, spans)) => {
                    for i in bad {
                        st.violation(
                            &Finding::new("C19.schedule", "", "a concurrent call returned a result different from the sequential baseline".into()),
                            &[&inputs[i]],
                        );
                    }
                    st.count("concurrent_calls", spans.len() as i128);
                    all_spans.push(spans);
                }
                Err(_) => st.harness_errors.push("a C19 worker thread died".into()),
            }
        }
        // overlapping pairs between thread 0 and the others (sampled measure of real concurrency)
        if let Some(first) = all_spans.first() {
            let mut overlaps = 0i128;
            for other in all_spans.iter().skip(1) {
                let mut j = 0;
                for &(a, b) in first {
                    while j < other.len() && other[j].1 < a {
                        j += 1;
                    }
                    let mut k = j;
                    while k < other.len() && other[k].0 <= b {
                        overlaps += 1;
                        k += 1;
                    }
                }
            }
            st.count("overlapping_call_pairs_with_thread0", overlaps);
        }
    }
    st.count("schedule_rounds", rounds as i128);
    st.count("schedule_threads", threads as i128);
}
