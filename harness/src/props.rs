//! Per-property workloads and oracles (DESIGN §6). Each runner handles one shard.

use crate::alloc;
use crate::gen::grammar::{self, Mark};
use crate::gen::mutate::{self, Corpus};
use crate::gen::targeted as tg;
use crate::gen::{self, soup, Src, Tier};
use crate::json::J;
use crate::oracle::structural::{self as st_or, PosTables};
use crate::oracle::{compose, meta, numeric, payload, reflex, shapes, wellformed, Finding, Findings};
use crate::rng::Rng;
use crate::run::{self, exec, Exec, Outcome};
use crate::stats::{clip, Stats};
use crate::view::{render, View};
use sas_lexer::{Payload, TokenChannel, TokenType};

pub struct Ctx<'a> {
    pub prop: &'a str,
    pub seed: u64,
    pub shard: usize,
    pub nshards: usize,
    pub tier: Tier,
    pub corpus: &'a Corpus,
    pub scale: f64,
}

impl Ctx<'_> {
    /// number of draws for this shard given totals for the two tiers
    pub fn draws(&self, quick_total: usize, thorough_total: usize) -> usize {
        // quick totals are written for a ~3 s run; the quick tier is run 5x deeper than that
        let t = if self.tier == Tier::Quick { quick_total * 5 } else { thorough_total * 2 };
        (((t as f64) * self.scale) as usize / self.nshards).max(1)
    }
    pub fn rng(&self, stream: u64) -> Rng {
        let pid: u64 = self.prop.bytes().fold(0u64, |a, b| a * 131 + u64::from(b));
        Rng::derive(self.seed, self.shard as u64, pid, stream)
    }
}

fn sample(src: &str, res: Option<&sas_lexer::LexResult>, note: &str) -> J {
    let mut j = J::obj();
    j.set("input", clip(src, 300));
    if let Some(r) = res {
        j.set("observed", clip(&render(src, r, 40), 600));
    }
    if !note.is_empty() {
        j.set("note", note);
    }
    j
}

fn record(st: &mut Stats, fs: &Findings, inputs: &[&str]) {
    for f in fs {
        st.violation(f, inputs);
    }
}

// ---------------------------------------------------------------------------------------------
// C01

/// Native stack bound. The lexer is a loop over an explicit mode stack: the native stack a call
/// needs does not depend on the input (measured on the unchanged tree: < 1 KiB in the dev
/// profile and optimized, over every quick workload). A call that needs more than
/// `STACK_LIMIT` has recursion whose depth follows the input, i.e. it cannot return on an
/// ordinary 2 MiB / 8 MiB thread once the input is large enough ("never ... without bound").
/// The harness threads have 64 MiB stacks so that such a call is measured instead of killing
/// the process.
pub const STACK_LIMIT: usize = 128 * 1024;

fn c01_stack(st: &mut Stats, ex: &run::Exec, s: &str) {
    if ex.stack_used > STACK_LIMIT {
        st.violation(
            &Finding::new(
                "C01.stack",
                "input-dependent-depth",
                format!("the call used {} bytes of native stack for a {}-byte source (limit {STACK_LIMIT}): recursion depth follows the input", ex.stack_used, s.len()),
            ),
            &[s],
        );
    }
}

fn c01_one(st: &mut Stats, s: &str, src: Src) {
    st.src(src);
    st.cases += 1;
    let base = alloc::window_start();
    // one execution in 64 (and every long one) with the stack-painting measure as well
    let ex = if s.len() > 3000 || st.cases % 64 == 0 { run::exec_painted(s) } else { exec(s) };
    let (peak, _total) = alloc::window_end(base);
    st.observe_exec(&ex);
    let len = s.len();
    let r = &ex.report;
    let d = (len + 1) as f64;
    if run::HOOKS {
        st.maxf("main_iters_per_byte", r.main_iters as f64 / d);
        st.maxf("cursor_steps_per_byte", r.cursor_steps as f64 / d);
        st.maxf("tokens_per_byte", r.tokens as f64 / d);
        st.maxf("errors_per_byte", r.errors as f64 / d);
    }
    st.maxf("peak_heap_bytes_per_byte", peak as f64 / d);
    // tokens are <= ~2 per byte (virtual tokens at end of input), 40 bytes each, and a growing
    // vector briefly holds old and new storage: 512 bytes per source byte is a generous linear bound
    let peak_budget = 512 * len + 64 * 1024;
    if peak > peak_budget && !matches!(ex.outcome, Outcome::Panic(_)) {
        st.violation(
            &Finding::new("C01.heap", "peak", format!("peak heap {peak} bytes for a {len}-byte source exceeds {peak_budget}")),
            &[s],
        );
    }
    c01_stack(st, &ex, s);
    match &ex.outcome {
        Outcome::Panic(p) => {
            st.violation(
                &Finding::new("C01.panic", &p.signature()["panic|".len()..], format!("panic at {}: {}", p.location, p.message)),
                &[s],
            );
        }
        Outcome::Budget(b) => {
            st.violation(
                &Finding::new(
                    "C01.budget",
                    &format!("{}|{}", b.counter, b.mode.split([' ', '(', '{']).next().unwrap_or("")),
                    format!("work counter {} reached {} on a {len}-byte source (mode {})", b.counter, b.value, b.mode),
                ),
                &[s],
            );
        }
        Outcome::Refused(e) => {
            st.violation(&Finding::new("C01.refused", e, format!("lex_program refused a {len}-byte source: {e}")), &[s]);
        }
        Outcome::Ok(res) => {
            let v = View::new(s, res);
            st.observe_view(&v);
            for e in &res.errors {
                if e.error_kind().is_internal() {
                    st.violation(
                        &Finding::new(
                            "C01.internal",
                            &format!("{:?}", e.error_kind()),
                            format!("internal error {:?} at byte {}", e.error_kind(), e.at_byte_offset()),
                        ),
                        &[s],
                    );
                    break;
                }
            }
            if r.rollbacks_without_checkpoint > 0 {
                st.violation(
                    &Finding::new("C01.rollback-without-checkpoint", "", "rollback() was called with no live checkpoint".into()),
                    &[s],
                );
            }
            if r.modes_seen.len() >= 2 || !res.errors.is_empty() || !run::HOOKS {
                st.nontrivial(s.as_bytes(), || sample(s, Some(res), ""));
            }
        }
    }
}

pub fn c01(ctx: &Ctx, st: &mut Stats) {
    let mut r = ctx.rng(0);
    let n = ctx.draws(160_000, 4_000_000);
    for _ in 0..n {
        let (s, src) = gen::general(&mut r, ctx.corpus, ctx.tier);
        c01_one(st, &s, src);
    }
    // nesting / speculation / datalines families
    let n = ctx.draws(60_000, 1_000_000);
    for _ in 0..n {
        let s = match r.below(7) {
            0 => tg::nesting_case(&mut r),
            1 => tg::speculation_case(&mut r),
            2 => tg::datalines_case(&mut r),
            3 => match r.below(3) {
                0 => tg::deep_call_case(&mut r),
                1 => tg::cascade_case(&mut r),
                _ => tg::trivia_run_case(&mut r),
            },
            4 => {
                let k = r.below(1 << 20);
                let b = crate::diffprops::diff_input("C18", r.next_u64(), k, ctx.tier, ctx.corpus);
                if r.chance(1, 2) { tg::lf_variant(&b, &mut r) } else { b }
            }
            _ => tg::error_case(&mut r, ctx.corpus),
        };
        c01_one(st, &s, Src::Targeted);
    }
    // every truncation of corpus programs (sharded by index)
    let small = &ctx.corpus.small;
    let lim = if ctx.tier == Tier::Quick { 120 } else { 2000 };
    for (i, p) in small.iter().enumerate() {
        if i % ctx.nshards != ctx.shard || p.len() > lim {
            continue;
        }
        for b in mutate::char_boundaries(p) {
            c01_one(st, &p[..b], Src::CorpusMut);
        }
    }
    // exhaustive short strings
    let space = soup::short_space_size(soup::SHORT_ALPHABET_40, 3);
    for k in (ctx.shard..space).step_by(ctx.nshards) {
        let s = soup::short_string(soup::SHORT_ALPHABET_40, 3, k);
        c01_one(st, &s, Src::Short);
    }
    if ctx.tier == Tier::Thorough {
        let space = soup::short_space_size(soup::SHORT_ALPHABET_16, 5);
        for k in (ctx.shard..space).step_by(ctx.nshards) {
            let s = soup::short_string(soup::SHORT_ALPHABET_16, 5, k);
            c01_one(st, &s, Src::Short);
        }
    }
    // large real programs and their truncations
    for (i, p) in ctx.corpus.large.iter().enumerate() {
        if i % ctx.nshards == ctx.shard % ctx.corpus.large.len().max(1) {
            let cuts = if ctx.tier == Tier::Quick { 8 } else { 200 };
            c01_one(st, p, Src::Corpus);
            for _ in 0..cuts {
                let t = mutate::truncate_at(p, &mut r);
                c01_one(st, &t, Src::CorpusMut);
            }
        }
    }
    // scaling families
    scaling(ctx, st);
    if ctx.tier == Tier::Thorough {
        guided(ctx, st, &mut |st, s| c01_one(st, s, Src::Guided));
    }
}

/// G7: each counter must grow linearly along p(n) -> p(8n).
fn scaling(ctx: &Ctx, st: &mut Stats) {
    let base_n = if ctx.tier == Tier::Quick { 256 } else { 2048 };
    let steps = if ctx.tier == Tier::Quick { 2 } else { 3 };
    for fi in (ctx.shard..gen::FAMILIES.len()).step_by(ctx.nshards) {
        let name = gen::FAMILIES[fi].0;
        let mut prev: Option<(usize, [f64; 6])> = None;
        let mut n = base_n;
        for _ in 0..steps {
            let s = gen::family(fi, n);
            if s.len() > 1 << 20 {
                break;
            }
            let base = alloc::window_start();
            let ex = run::exec_painted(&s);
            let (peak, total_alloc) = alloc::window_end(base);
            st.observe_exec(&ex);
            c01_stack(st, &ex, &format!("family {name} n={n}"));
            st.src(Src::Family);
            st.cases += 1;
            st.count("scaling_points", 1);
            match &ex.outcome {
                Outcome::Ok(res) => {
                    let r = &ex.report;
                    let cur = [
                        r.main_iters as f64,
                        r.cursor_steps as f64,
                        r.tokens as f64,
                        r.errors as f64,
                        peak as f64,
                        total_alloc as f64,
                    ];
                    if res.errors.iter().any(|e| e.error_kind().is_internal()) {
                        st.violation(
                            &Finding::new("C01.internal", &format!("family:{name}"), "internal error on a scaling family".into()),
                            &[&s],
                        );
                    }
                    if let Some((pn, pv)) = prev {
                        let names = ["main_iters", "cursor_steps", "tokens", "errors", "peak_heap", "total_alloc_bytes"];
                        for k in 0..6 {
                            if !run::HOOKS && k < 4 {
                                continue;
                            }
                            // bytes requested in total: the debug-only loop detector clones the mode
                            // stack every iteration (quadratic for deep nesting, by design), so this
                            // counter is judged in the optimized build only
                            if k == 5 && run::DEBUG_BUILD {
                                continue;
                            }
                            // +64 keeps tiny counters from producing meaningless ratios
                            let ratio = (cur[k] + 64.0) / (pv[k] + 64.0);
                            st.maxf(&format!("scaling_ratio_{}", names[k]), ratio);
                            let factor = (n / pn) as f64;
                            if ratio > factor * 1.25 {
                                st.violation(
                                    &Finding::new(
                                        "C01.superlinear",
                                        &format!("{}|family:{name}", names[k]),
                                        format!(
                                            "{} grew {:.1}x when the input grew {:.0}x (family {name}, n {pn} -> {n})",
                                            names[k], ratio, factor
                                        ),
                                    ),
                                    &[&gen::family(fi, 64)],
                                );
                            }
                        }
                    }
                    prev = Some((n, cur));
                    st.nontrivial(format!("family:{name}:{n}").as_bytes(), || {
                        let mut j = J::obj();
                        j.set("family", name);
                        j.set("n", n);
                        j.set("bytes", s.len());
                        j.set("main_iters", ex.report.main_iters);
                        j.set("cursor_steps", ex.report.cursor_steps);
                        j.set("tokens", ex.report.tokens);
                        j.set("peak_heap", peak);
                        j
                    });
                }
                Outcome::Panic(p) => st.violation(
                    &Finding::new("C01.panic", &p.signature()["panic|".len()..], format!("panic on family {name} n={n}: {}", p.message)),
                    &[&gen::family(fi, 8)],
                ),
                Outcome::Budget(b) => st.violation(
                    &Finding::new("C01.budget", &format!("{}|family:{name}", b.counter), format!("budget {} hit on family {name} n={n}", b.counter)),
                    &[&gen::family(fi, 8)],
                ),
                Outcome::Refused(e) => st.violation(&Finding::new("C01.refused", e, String::new()), &[&gen::family(fi, 8)]),
            }
            n *= 8;
        }
    }
}

/// G6: corpus growth guided by the hook's lexer state keys.
pub fn guided(ctx: &Ctx, st: &mut Stats, check: &mut dyn FnMut(&mut Stats, &str)) {
    let mut r = ctx.rng(77);
    let mut seen: std::collections::HashSet<u64> = std::collections::HashSet::new();
    let mut pool: Vec<String> = Vec::new();
    for p in ctx.corpus.small.iter().skip(ctx.shard).step_by(ctx.nshards).take(400) {
        pool.push(p.clone());
    }
    if pool.is_empty() {
        pool.push("%let a=1;".into());
    }
    let iters = ctx.draws(0, 1_500_000);
    for _ in 0..iters {
        let mut s = r.pick_ref(&pool).clone();
        let k = r.range(1, 3);
        for _ in 0..k {
            s = mutate::mutate_once(&s, &mut r);
        }
        if r.chance(1, 8) {
            let o = r.pick_ref(&pool).clone();
            s = mutate::splice(&s, &o, &mut r);
        }
        if s.len() > 600 {
            continue;
        }
        let ex = exec(&s);
        let mut fresh = false;
        for key in &ex.report.state_keys {
            if seen.insert(*key) {
                fresh = true;
            }
        }
        drop(ex);
        check(st, &s);
        if fresh && pool.len() < 20_000 {
            pool.push(s);
            st.count("guided_corpus_additions", 1);
        }
    }
    st.count("guided_state_keys", seen.len() as i128);
}

// ---------------------------------------------------------------------------------------------
// structural properties C02..C07, C09, C10

fn structural_check(prop: &str, v: &View, pt: &PosTables) -> Findings {
    match prop {
        "C02" => st_or::check_c02(v),
        "C03" => st_or::check_c03(v, pt),
        "C04" => st_or::check_c04(v, pt),
        "C05" => st_or::check_c05(v),
        "C06" => shapes::check_c06(v, run::MACRO_SEP),
        "C07" => payload::check_c07(v),
        "C09" => st_or::check_c09(v),
        "C10" => st_or::check_c10(v),
        _ => Findings::new(),
    }
}

fn structural_nontrivial(prop: &str, s: &str, v: &View, ex: &Exec) -> bool {
    match prop {
        "C02" => {
            s.chars().filter(|c| !c.is_ascii()).count() >= 2
                || ex.report.rollbacks > 0
                || v.toks.iter().any(|t| t.b0 == t.b1 && t.ty != TokenType::EOF)
        }
        "C03" => {
            // a token starting after a multi-byte char
            v.toks.iter().any(|t| (t.c0 as usize) < t.b0)
        }
        "C04" => {
            let lfs = s.bytes().filter(|&b| b == b'\n').count();
            lfs >= 2
                && v.toks.iter().enumerate().any(|(i, t)| t.ty != TokenType::WS && v.text(i).contains('\n'))
        }
        "C05" => v.toks.iter().enumerate().any(|(i, t)| {
            let txt = v.text(i);
            (t.b0 == t.b1 && t.ty != TokenType::EOF && (t.b0 == 0 || s.as_bytes().get(t.b0.wrapping_sub(1)) == Some(&b'\n')))
                || txt.contains('\n') && t.ty != TokenType::WS
        }),
        "C06" => {
            let mut types = std::collections::HashSet::new();
            for t in &v.toks {
                types.insert(t.ty as u16);
            }
            types.len() >= 5
        }
        "C07" => payload::has_string_payload(v),
        "C09" => !v.errors().is_empty() && ex.report.checkpoints > 0,
        "C10" => {
            let pending = ex.report.end_of_input.as_ref().map_or(0, |e| e.modes.len());
            let pairs = v
                .toks
                .iter()
                .filter(|t| matches!(t.ty, TokenType::StringExprStart | TokenType::DatalinesStart | TokenType::MacroLabel) || st_or::is_builtin_with_args(t.ty))
                .count();
            pending >= 4 || pairs >= 2
        }
        _ => true,
    }
}

pub fn structural_one(prop: &str, st: &mut Stats, s: &str, src: Src) {
    st.src(src);
    st.cases += 1;
    let ex = exec(s);
    st.observe_exec(&ex);
    let Some(res) = ex.result() else {
        if prop == "C02" {
            // "the token sequence covers the source" presupposes that there is one
            let why = match &ex.outcome {
                Outcome::Panic(p) => format!("panic|{}", p.signature()),
                Outcome::Budget(b) => format!("work-budget|{}", b.counter),
                _ => return,
            };
            st.violation(&Finding::new("C02.no-sequence", &why, "no token sequence was returned for this source".into()), &[s]);
        }
        return;
    };
    let v = View::new(s, res);
    st.observe_view(&v);
    let pt = PosTables::new(s);
    let fs = structural_check(prop, &v, &pt);
    record(st, &fs, &[s]);
    if structural_nontrivial(prop, s, &v, &ex) {
        st.nontrivial(s.as_bytes(), || sample(s, Some(res), ""));
    }
    if prop == "C09" {
        // event-level monitor: an error raised while a checkpoint was live, followed by the
        // rollback of that checkpoint, is a diagnostic that survives rolled-back speculation
        if run::HOOKS && ex.report.rollbacks_after_error > 0 {
            st.violation(
                &Finding::new(
                    "C09.event",
                    "error-survived-rollback",
                    format!(
                        "{} rollback(s) happened after an error had been raised under the same checkpoint (decisions {})",
                        ex.report.rollbacks_after_error, ex.report.decisions
                    ),
                ),
                &[s],
            );
        }
        if ex.report.errors_under_checkpoint > 0 {
            st.count("executions_with_error_under_checkpoint", 1);
        }
        if ex.report.rollbacks_after_error > 0 {
            st.count("executions_with_rollback_after_error", 1);
        }
    }
    if prop == "C07" {
        for t in &v.toks {
            if let Payload::StringLiteral(a, b) = t.payload {
                st.count(&format!("payload_tokens_{:?}", t.ty), 1);
                st.count("literal_buffer_bytes_checked", i128::from(b - a));
            }
            if t.ty == TokenType::HexStringLiteral {
                st.count(
                    if matches!(t.payload, Payload::StringLiteral(..)) { "hex_decoded" } else { "hex_rejected" },
                    1,
                );
            }
        }
    }
    if prop == "C04" {
        for (i, t) in v.toks.iter().enumerate() {
            if v.text(i).contains('\n') {
                st.count(&format!("lf_inside_{:?}", t.ty), 1);
            }
        }
    }
}

pub fn structural(ctx: &Ctx, st: &mut Stats) {
    let prop = ctx.prop;
    let mut r = ctx.rng(0);
    let n = ctx.draws(120_000, 2_500_000);
    for _ in 0..n {
        let (s, src) = gen::general(&mut r, ctx.corpus, ctx.tier);
        structural_one(prop, st, &s, src);
    }
    let n = ctx.draws(120_000, 2_500_000);
    for _ in 0..n {
        let s = tg::structural_targeted(prop, &mut r, ctx.corpus, ctx.tier);
        structural_one(prop, st, &s, Src::Targeted);
    }
    // G5 exhaustive short strings for the shape-level oracles
    if matches!(prop, "C02" | "C06" | "C09" | "C10") {
        let space = soup::short_space_size(soup::SHORT_ALPHABET_40, 3);
        for k in (ctx.shard..space).step_by(ctx.nshards) {
            let s = soup::short_string(soup::SHORT_ALPHABET_40, 3, k);
            structural_one(prop, st, &s, Src::Short);
        }
        if ctx.tier == Tier::Thorough {
            let space = soup::short_space_size(soup::SHORT_ALPHABET_16, 5);
            for k in (ctx.shard..space).step_by(ctx.nshards) {
                let s = soup::short_string(soup::SHORT_ALPHABET_16, 5, k);
                structural_one(prop, st, &s, Src::Short);
            }
        }
    }
    // exhaustive truncations of grammar programs (C10, C02, C04, C05)
    if matches!(prop, "C10" | "C02" | "C05" | "C09") {
        let progs = ctx.draws(400, 8000);
        for _ in 0..progs {
            let p = grammar::gen_program(&mut r, ctx.tier.gcfg());
            if p.s.len() > 400 {
                continue;
            }
            for b in mutate::char_boundaries(&p.s) {
                structural_one(prop, st, &p.s[..b], Src::GrammarTrunc);
            }
        }
    }
    // LF at every boundary of grammar programs (C04, C05)
    if matches!(prop, "C04" | "C05") {
        let progs = ctx.draws(400, 8000);
        for _ in 0..progs {
            let p = grammar::gen_program(&mut r, ctx.tier.gcfg());
            if p.s.len() > 300 {
                continue;
            }
            let mut outs = Vec::new();
            mutate::insert_everywhere(&p.s, "\n", 400, &mut r, |s| outs.push(s));
            for s in outs {
                structural_one(prop, st, &s, Src::GrammarMut);
            }
        }
    }
    // multibyte at every boundary (C03)
    if prop == "C03" {
        let progs = ctx.draws(400, 8000);
        for _ in 0..progs {
            let p = grammar::gen_program(&mut r, ctx.tier.gcfg());
            if p.s.len() > 300 {
                continue;
            }
            let what = r.pick(&["é", "日", "😀"]);
            let mut outs = Vec::new();
            mutate::insert_everywhere(&p.s, what, 400, &mut r, |s| outs.push(s));
            for s in outs {
                structural_one(prop, st, &s, Src::GrammarMut);
            }
        }
    }
    // more than 65 535 lines / literal-buffer bytes before a rollback (C02, C04, C05, C07)
    if matches!(prop, "C02" | "C04" | "C05" | "C07") {
        for k in (ctx.shard..if ctx.tier == Tier::Quick { 6 } else { 24 }).step_by(ctx.nshards) {
            let mut rr = Rng::derive(ctx.seed, k as u64, 6502, 1);
            let spec = tg::speculation_case(&mut rr);
            let tail = rr.pick(&["set b %cond c;", "%m(a b);", "%macro q; * a %x; %mend;", "%m x;", "\"%m x\";"]);
            let s = match k % 3 {
                0 => format!("{}{} {}\n{}", "x;\n".repeat(66_000 / 2), "\n".repeat(33_100), tail, spec),
                1 => format!("y='{}''z'; {} {}", "a".repeat(70_000), tail, spec),
                _ => format!("%let a=%str({}%%b); y=\"{}\"\"\"; {}\n{}", "q".repeat(40_000), "é".repeat(20_000), tail, spec),
            };
            structural_one(prop, st, &s, Src::Family);
            st.count("beyond_16bit_inputs", 1);
        }
    }
    // one very long text section per text-scanning mode (C02, C04, C06, C09, C10)
    if matches!(prop, "C02" | "C04" | "C06" | "C09" | "C10") {
        for k in (ctx.shard..if ctx.tier == Tier::Quick { 30 } else { 120 }).step_by(ctx.nshards) {
            let mut rr = Rng::derive(ctx.seed, k as u64, 3277, 1);
            let s = tg::long_section_case(&mut rr, k);
            structural_one(prop, st, &s, Src::Family);
            st.count("long_section_inputs", 1);
        }
    }
    // very many diagnostics in one source (C09)
    if prop == "C09" {
        for k in (ctx.shard..if ctx.tier == Tier::Quick { 8 } else { 48 }).step_by(ctx.nshards) {
            let mut rr = Rng::derive(ctx.seed, k as u64, 909, 1);
            let s = tg::many_errors_case(&mut rr);
            structural_one(prop, st, &s, Src::Family);
            st.count("many_error_inputs", 1);
        }
    }
    // long literals: beyond any 16-bit / 32 Ki threshold (C07)
    if prop == "C07" {
        for k in (ctx.shard..24).step_by(ctx.nshards) {
            let len = [20_000usize, 33_000, 66_000, 140_000][k % 4];
            let s = match k / 4 {
                0 => format!("x='{}'x;", "41".repeat(len / 2)),
                1 => format!("x=\"{}\"x;", "4a,".repeat(len / 3) + "4b"),
                2 => format!("x='{}''{}';", "a".repeat(len), "b".repeat(7)),
                3 => format!("x=\"{}\"\"{}\";", "é".repeat(len / 2), "b"),
                4 => format!("%let a=%str({}%%{});", "a".repeat(len), "b".repeat(len / 3)),
                _ => format!("x=\"&v.{}\"\"{}\"d;", "q".repeat(len), "r"),
            };
            structural_one(prop, st, &s, Src::Family);
            st.count("long_literal_inputs", 1);
        }
    }
    // ground truth for generated literals (C07)
    if prop == "C07" {
        let progs = ctx.draws(30_000, 600_000);
        for _ in 0..progs {
            let p = if r.chance(1, 2) { grammar::gen_program(&mut r, ctx.tier.gcfg()) } else { grammar::gen_call(&mut r, ctx.tier.gcfg()) };
            st.src(Src::Grammar);
            st.cases += 1;
            let ex = exec(&p.s);
            st.observe_exec(&ex);
            let Some(res) = ex.result() else { continue };
            let v = View::new(&p.s, res);
            st.observe_view(&v);
            let mut fs = payload::check_c07(&v);
            fs.extend(wellformed::check_generated_literals(&p, &v));
            record(st, &fs, &[&p.s]);
            if payload::has_string_payload(&v) {
                st.nontrivial(p.s.as_bytes(), || sample(&p.s, Some(res), "generated"));
            }
        }
    }
    if ctx.tier == Tier::Thorough {
        let p = prop.to_string();
        guided(ctx, st, &mut |st, s| structural_one(&p, st, s, Src::Guided));
    }
}

// ---------------------------------------------------------------------------------------------
// C08

fn c08_one(st: &mut Stats, s: &str, context: &str) {
    st.cases += 1;
    let ex = exec(s);
    st.observe_exec(&ex);
    let Some(res) = ex.result() else { return };
    let v = View::new(s, res);
    st.observe_view(&v);
    let mut fs = numeric::check_c08(&v);
    // macro-free text: the numeric tokens (span, type, errors) are those of the reference reading
    if fs.is_empty() && reflex::is_macro_free(s) {
        for f in reflex::check_c11(&v) {
            if ["IntegerLiteral", "FloatLiteral", "FloatExponentLiteral", "InvalidNumericLiteral", "UnterminatedHexNumericLiteral"].iter().any(|k| f.sig.contains(k)) {
                fs.push(Finding::new("C08.reference", &f.sig, f.msg));
            }
        }
    }
    record(st, &fs, &[s]);
    let n = numeric::numeric_tokens(&v);
    if n > 0 {
        st.count(&format!("numeric_tokens_{context}"), n as i128);
        for t in &v.toks {
            if numeric::is_numeric_type(t.ty) {
                st.count(&format!("numeric_{:?}", t.ty), 1);
            }
        }
        st.nontrivial(s.as_bytes(), || sample(s, Some(res), context));
    }
}

/// A valid literal written as the whole operand of an arithmetic context. Whether the lexer reads
/// it as a numeric token there is *not* part of C08 (the property speaks about numeric tokens; in
/// float mode `1.e1` is text on the pinned tree, in integer mode `1.5` is text by design): the
/// outcome is only counted, the numeric tokens that do appear are judged like all others.
fn c08_operand(st: &mut Stats, lit: &str, r: &mut Rng) {
    let Some((ety, _)) = numeric::read_numeric(lit) else { return };
    let all_digits = lit.bytes().all(|b| b.is_ascii_digit());
    let hex = lit.ends_with(['x', 'X']);
    let float_ctx = r.chance(1, 2) || !(hex || (all_digits && ety == TokenType::IntegerLiteral));
    let s = if float_ctx {
        let t = r.pick(&["%sysevalf({})", "%sysfunc(f({}))", "%sysevalf( {} )", "%sysevalf(1+{})", "%sysfunc(f(x, {}))", "%qsysfunc(putn({}, best32.))", "%sysevalf({}, ceil)"]);
        t.replace("{}", lit)
    } else {
        let t = r.pick(&["%eval({})", "%if {} %then x;", "%eval(1 + {})", "%do i={} %to 2; %end;", "%eval( {} )", "%substr(abc, {})"]);
        t.replace("{}", lit)
    };
    let ctx_name = if float_ctx { "float-operand" } else { "integer-operand" };
    c08_one(st, &s, ctx_name);
}

pub fn c08(ctx: &Ctx, st: &mut Stats) {
    let mut r = ctx.rng(0);
    for lit in tg::NUMERIC_BOUNDARY {
        for _ in 0..4 {
            c08_operand(st, lit, &mut r);
        }
    }
    let n = ctx.draws(20_000, 300_000);
    for k in 0..n {
        let lit = if k % 2 == 0 { tg::numeric_spelling(&mut r) } else { tg::random_double_text(&mut r) };
        c08_operand(st, &lit, &mut r);
    }
    // boundary values in every context (all shards split the list)
    for (i, lit) in tg::NUMERIC_BOUNDARY.iter().enumerate() {
        if i % ctx.nshards != ctx.shard {
            continue;
        }
        for tmpl in ["x = {};", "{}", "%eval({})", "%if {} %then x;", "%sysevalf({})", "%sysfunc(f({}))", "%eval(1 + {} - 2)", "%sysevalf({}, ceil)", "a={}b", "{}{}"] {
            let s = tmpl.replace("{}", lit);
            c08_one(st, &s, "boundary");
        }
    }
    // enumerated spelling space, sampled in quick and exhaustive up to length 5 in thorough
    let n = ctx.draws(150_000, 2_000_000);
    for _ in 0..n {
        let lit = tg::numeric_spelling(&mut r);
        let (s, c) = tg::numeric_in_context(&lit, &mut r);
        c08_one(st, &s, c);
    }
    if ctx.tier == Tier::Thorough {
        const A: &[&str] = &["0", "1", "9", ".", "e", "E", "+", "-", "a", "f", "x", "X"];
        for len in 1..=5 {
            let space = soup::short_space_size(A, len);
            for k in (ctx.shard..space).step_by(ctx.nshards) {
                let lit = soup::short_string(A, len, k);
                for tmpl in ["{} ", "%eval({})", "%sysevalf({})"] {
                    c08_one(st, &tmpl.replace("{}", &lit), "exhaustive");
                }
            }
        }
    }
    // random doubles
    let n = ctx.draws(60_000, 1_000_000);
    for _ in 0..n {
        let lit = tg::random_double_text(&mut r);
        let (s, c) = tg::numeric_in_context(&lit, &mut r);
        c08_one(st, &s, c);
    }
    // general pool (numerics in the wild)
    let n = ctx.draws(40_000, 800_000);
    for _ in 0..n {
        let (s, _) = gen::general(&mut r, ctx.corpus, ctx.tier);
        c08_one(st, &s, "general");
    }
}

// ---------------------------------------------------------------------------------------------
// C11

const OPEN_FRAGS: &[&str] = &[
    "data", "a", "b", "x1", "_n_", "set", "run", "proc", "sql", "select", "from", "where", "if", "then", "else", "do", "end",
    "input", "put", "format", "array", "lt", "le", "eq", "ne", "gt", "ge", "and", "or", "not", "in", "eqt", "_all_", "_null_",
    "datalines", "cards", "lines", "datalines4", "cards4", "lines4", "DATALINES", "é", "дата", "a_é", ";", ";", ";", " ", " ",
    "\n", "\t", "\u{a0}", "\u{2028}", "\u{b}", "\u{c}", "\r", "\u{85}", "\u{1680}", "\u{3000}", "*", "**", "* c;", "*;", "/", "/* c */", "/* ; */", "/*", "'a'", "'a''b'", "'a'd", "'a'dt",
    "'a't", "'a'n", "'a'b", "'41'x", "'4'x", "'+1'x", "\"a\"", "\"a\"\"b\"", "\"a\"x", "\"41\"X", "\"a\"dt", "'", "\"", "'a",
    "1", "12", "1.5", ".5", "1.", "1e5", "1E-5", "1e", "1e+", "0ffx", "0ff", "1fx", "12ab", "1ex", "9ffffffffffffffffx", "007",
    "18446744073709551616", "000000000000000000001", "0000000000000000000000042", "1e00000005", "(", ")", "{", "}", "[", "]", "!", "!!", "¦", "¦¦", "|", "||", "¬", "^", "~", "∘", "¬=", "^=", "~=",
    "∘=", "+", "-", "<", "<=", "<>", ">", ">=", "><", "=", "=*", ".", ",", ":", "$", "$char10.", "$10.", "$é5.2", "$a", "$.", "@",
    "#", "?", "&", "&&", "%", "% ", "& ", "\\", "`", "\u{1}", "\0", "\u{feff}", "😀", "x=1;", "a.b", "lib.ds", "8.2", "best12.",
];

pub fn macro_free_statement(r: &mut Rng) -> String {
    let n = r.range(1, 14);
    let mut s = String::new();
    let look = soup::lookalikes();
    for _ in 0..n {
        if r.chance(1, 25) {
            s.push_str(&look[r.below(look.len())]);
        } else {
            s.push_str(r.pick(OPEN_FRAGS));
        }
        if r.chance(1, 3) {
            s.push(' ');
        }
    }
    s
}

fn c11_one(st: &mut Stats, s: &str, src: Src) {
    if !reflex::is_macro_free(s) {
        st.count("skipped_not_macro_free", 1);
        return;
    }
    st.src(src);
    st.cases += 1;
    let ex = exec(s);
    st.observe_exec(&ex);
    let Some(res) = ex.result() else { return };
    let v = View::new(s, res);
    st.observe_view(&v);
    let fs = reflex::check_c11(&v);
    record(st, &fs, &[s]);
    let mut types = std::collections::HashSet::new();
    let mut n_default = 0;
    for t in &v.toks {
        if t.ch == TokenChannel::DEFAULT && t.ty != TokenType::EOF {
            n_default += 1;
            types.insert(t.ty as u16);
        }
    }
    if n_default >= 4 && types.len() >= 3 {
        st.nontrivial(s.as_bytes(), || sample(s, Some(res), ""));
    }
}

pub fn c11(ctx: &Ctx, st: &mut Stats) {
    let mut r = ctx.rng(0);
    let n = ctx.draws(250_000, 5_000_000);
    for _ in 0..n {
        let s = match r.below(10) {
            0 => tg::datalines_case(&mut r),
            1 => {
                let mut s = macro_free_statement(&mut r);
                s = mutate::mutate_once(&s, &mut r);
                s
            }
            _ => macro_free_statement(&mut r),
        };
        c11_one(st, &s, Src::Targeted);
    }
    // symbol pairs in three neighbourhoods (exhaustive)
    let syms: Vec<&str> = soup::SYMBOLS.iter().copied().filter(|s| !s.starts_with('%') || *s == "%").collect();
    let mut k = 0usize;
    for a in &syms {
        for b in &syms {
            k += 1;
            if k % ctx.nshards != ctx.shard {
                continue;
            }
            for (pre, post) in [("", ""), ("x ", " y;"), ("a=1;", "1")] {
                c11_one(st, &format!("{pre}{a}{b}{post}"), Src::Short);
            }
        }
    }
    // exhaustive short strings
    let space = soup::short_space_size(soup::SHORT_ALPHABET_40, 3);
    for k in (ctx.shard..space).step_by(ctx.nshards) {
        c11_one(st, &soup::short_string(soup::SHORT_ALPHABET_40, 3, k), Src::Short);
    }
    let len16 = if ctx.tier == Tier::Quick { 4 } else { 5 };
    let space = soup::short_space_size(soup::SHORT_ALPHABET_16, len16);
    for k in (ctx.shard..space).step_by(ctx.nshards) {
        c11_one(st, &soup::short_string(soup::SHORT_ALPHABET_16, len16, k), Src::Short);
    }
    // macro-free subset of the general pool
    let n = ctx.draws(100_000, 2_000_000);
    for _ in 0..n {
        let (s, src) = gen::general(&mut r, ctx.corpus, ctx.tier);
        c11_one(st, &s, src);
    }
}

// ---------------------------------------------------------------------------------------------
// C12 / C13 / C14

pub fn c12(ctx: &Ctx, st: &mut Stats) {
    let mut r = ctx.rng(0);
    let n = ctx.draws(150_000, 3_000_000);
    for _ in 0..n {
        let p = grammar::gen_program(&mut r, ctx.tier.gcfg());
        c12_one(st, &p);
    }
    // deep nesting: beyond every initial capacity (mode stack 40, pending-statement bit vector)
    let n = ctx.draws(4_000, 80_000);
    for _ in 0..n {
        let levels = r.pick(&[3usize, 8, 17, 31, 32, 33, 40, 41, 42, 63, 64, 65, 100, 130, 260]);
        let p = grammar::gen_deep_program(&mut r, ctx.tier.gcfg(), levels);
        st.count("deep_programs", 1);
        c12_one(st, &p);
    }
    // deep, balanced call nests (several modes per level: hundreds of pending modes) around
    // something that makes the lexer speculate and roll back at that depth
    let n = ctx.draws(3_000, 60_000);
    for _ in 0..n {
        let k = r.pick(&[5usize, 10, 30, 52, 60, 64, 128, 140, 300]);
        let (open, close) = r.pick(&[
            ("%sysfunc(tranwrd(", ",a,b))"),
            ("%eval(", ")"),
            ("%m1(", ")"),
            ("%m1(a=", ")"),
            ("%upcase(", ")"),
            ("%str(", ")"),
            ("%qsysfunc(strip(", "))"),
            ("%eval((", "))"),
        ]);
        let numeric = open.starts_with("%eval");
        let inner = if numeric {
            r.pick(&["1", "1 + 2", "&v", "%calc1 + 1", "%calc1(2) * 3", "1 %m_2"])
        } else {
            r.pick(&["x", "%u2x tail", "x y", "&v", "%calc1(1) z", "a %m_2 b", "%m_2"])
        };
        let head = r.pick(&["%let r = ", "%put ", "x = ", "%if 1 %then %put ", "title \""]);
        let tail = if head.ends_with('"') { "\";" } else { ";" };
        let prog = grammar::Prog { s: format!("{head}{}{inner}{}{tail}\n", open.repeat(k), close.repeat(k)), ..Default::default() };
        st.count("deep_call_nests", 1);
        c12_one(st, &prog);
        if k >= 52 {
            st.nontrivial(prog.s.as_bytes(), || sample(&prog.s, None, &format!("{k} nested {open}")));
        }
    }
}

pub fn c12_one(st: &mut Stats, p: &grammar::Prog) {
    st.src(Src::Grammar);
    st.cases += 1;
    let ex = exec(&p.s);
    st.observe_exec(&ex);
    let Some(res) = ex.result() else {
        // a well-formed program must lex to a result (C01 says every input does; for generated
        // well-formed programs the missing result is also a C12 failure)
        let cls = match &ex.outcome {
            Outcome::Panic(pn) => format!("panic|{}", pn.frames.first().cloned().unwrap_or_default()),
            Outcome::Budget(b) => format!("budget|{}", b.counter),
            _ => "refused".to_string(),
        };
        st.violation(&Finding::new("C12.no-result", &cls, "a well-formed program did not lex to a result".into()), &[&p.s]);
        return;
    };
    let v = View::new(&p.s, res);
    st.observe_view(&v);
    let fs = wellformed::check_c12(p, &ex);
    record(st, &fs, &[&p.s]);
    for k in &p.kinds {
        st.count(&format!("construct_{k}"), 1);
    }
    st.count("nest_pairs_total", p.nest_pairs.len() as i128);
    for (a, b) in &p.nest_pairs {
        st.count(&format!("nest_{a}>{b}"), 1);
    }
    if p.max_depth >= 3 && p.kinds.len() >= 3 {
        st.nontrivial(p.s.as_bytes(), || sample(&p.s, None, &format!("depth {} kinds {}", p.max_depth, p.kinds.len())));
    }
}

pub fn c13(ctx: &Ctx, st: &mut Stats) {
    let mut r = ctx.rng(0);
    let n = ctx.draws(150_000, 3_000_000);
    let mut cs = wellformed::C13Stats { delims: 0, ops: 0, ints: 0, masked: 0, masked_deep_after_subtoken: 0, insig: 0, parens_in_text: 0 };
    for _ in 0..n {
        let p = if r.chance(1, 2) { grammar::gen_call(&mut r, ctx.tier.gcfg()) } else { grammar::gen_program(&mut r, ctx.tier.gcfg()) };
        c13_one(st, &p, &mut cs);
    }
    // wide and deep calls: tens to thousands of arguments in one call (named with blanks around
    // the '=', positional, two-word values that are first tried as names), and calls nested in
    // named-argument position 30...400 deep: every '(' ',' '=' ')' is still a delimiter token
    let n = ctx.draws(40, 400);
    for _ in 0..n {
        let mut p = grammar::Prog { s: String::new(), marks: Vec::new(), deletions: Vec::new(), kinds: Default::default(), nest_pairs: Default::default(), max_depth: 0 };
        let head = r.pick(&["", "%put ", "%let v = ", "x = ", "data a; y = "]);
        let name = r.pick(&["%m", "%calc1", "%größe", "%_n"]);
        p.s.push_str(head);
        if r.chance(1, 2) {
            let nargs = r.pick(&[40usize, 60, 76, 77, 78, 79, 80, 81, 100, 127, 128, 129, 255, 256, 257, 300, 1000, 3000]);
            p.s.push_str(name);
            p.marks.push(Mark::Delim { pos: p.s.len(), ty: TokenType::LPAREN, hidden: false });
            p.s.push('(');
            let style = r.below(5);
            for i in 0..nargs {
                if i > 0 {
                    p.marks.push(Mark::Delim { pos: p.s.len(), ty: TokenType::COMMA, hidden: false });
                    p.s.push(',');
                    if r.chance(1, 3) {
                        p.s.push(' ');
                    }
                }
                match if style == 4 { r.below(4) } else { style } {
                    0 => {
                        p.s.push_str(&format!("k{i} "));
                        p.marks.push(Mark::Delim { pos: p.s.len(), ty: TokenType::ASSIGN, hidden: false });
                        p.s.push_str(&format!("= v{i}"));
                    }
                    1 => {
                        p.s.push_str(&format!("k{i}/*c*/"));
                        p.marks.push(Mark::Delim { pos: p.s.len(), ty: TokenType::ASSIGN, hidden: false });
                        p.s.push_str("=1");
                    }
                    2 => p.s.push_str(&format!("a b{i}")),
                    _ => {
                        p.s.push_str(&format!("k{i}"));
                        p.marks.push(Mark::Delim { pos: p.s.len(), ty: TokenType::ASSIGN, hidden: false });
                        p.s.push_str("=&x");
                    }
                }
            }
            p.marks.push(Mark::Delim { pos: p.s.len(), ty: TokenType::RPAREN, hidden: false });
            p.s.push(')');
            st.count("wide_calls", 1);
        } else {
            let depth = r.pick(&[20usize, 30, 38, 39, 40, 41, 42, 60, 64, 65, 100, 130, 260, 400]);
            let pad = r.pick(&["", " ", "/*c*/"]);
            for _ in 0..depth {
                p.s.push_str(name);
                p.marks.push(Mark::Delim { pos: p.s.len(), ty: TokenType::LPAREN, hidden: false });
                p.s.push_str("(a");
                p.s.push_str(pad);
                p.marks.push(Mark::Delim { pos: p.s.len(), ty: TokenType::ASSIGN, hidden: false });
                p.s.push('=');
            }
            p.s.push_str("x, y");
            for _ in 0..depth {
                p.marks.push(Mark::Delim { pos: p.s.len(), ty: TokenType::RPAREN, hidden: false });
                p.s.push(')');
            }
            st.count("deep_named_arg_calls", 1);
        }
        if !head.is_empty() {
            p.s.push(';');
        }
        c13_one(st, &p, &mut cs);
        let mut cut = p.s.len().min(200);
        while !p.s.is_char_boundary(cut) {
            cut -= 1;
        }
        st.nontrivial(p.s.as_bytes(), || sample(&p.s[..cut], None, "wide / deep call: every delimiter position checked"));
    }
    st.count("delimiter_positions_checked", cs.delims as i128);
    st.count("operator_positions_checked", cs.ops as i128);
    st.count("integer_operands_checked", cs.ints as i128);
    st.count("masked_positions_checked", cs.masked as i128);
    st.count("masked_at_depth_after_subtoken", cs.masked_deep_after_subtoken as i128);
    st.count("insignificant_spans_checked", cs.insig as i128);
    st.count("parens_in_text_checked", cs.parens_in_text as i128);
}

pub fn c13_one(st: &mut Stats, p: &grammar::Prog, cs: &mut wellformed::C13Stats) {
    st.src(Src::Grammar);
    st.cases += 1;
    let ex = exec(&p.s);
    st.observe_exec(&ex);
    let Some(res) = ex.result() else { return };
    let v = View::new(&p.s, res);
    st.observe_view(&v);
    let before = cs.masked_deep_after_subtoken;
    let fs = wellformed::check_c13(p, &v, cs);
    record(st, &fs, &[&p.s]);
    for m in &p.marks {
        if let Mark::Masked { ctx, depth, .. } = m {
            st.count(&format!("masked_{ctx}_depth{}", (*depth).min(3)), 1);
        }
    }
    if cs.masked_deep_after_subtoken > before {
        st.nontrivial(p.s.as_bytes(), || sample(&p.s, Some(res), "masked delimiter at depth>=1 after a sub-token"));
    }
}

pub fn c14(ctx: &Ctx, st: &mut Stats) {
    let mut r = ctx.rng(0);
    let n = ctx.draws(60_000, 1_200_000);
    for _ in 0..n {
        let p = if r.chance(2, 3) { grammar::gen_stmt_for_deletion(&mut r, ctx.tier.gcfg()) } else { grammar::gen_program(&mut r, ctx.tier.gcfg()) };
        c14_prog(st, &p, &mut r);
        c14_truncations(st, &p.s, &mut r);
    }
    // the `;` of %end / %return / %do %while|%until(...) omitted where the statement is written
    // inside the parentheses of a call, a quoting function or an expression and the next
    // significant character is a closer, a separator or ordinary text of that context
    let n = ctx.draws(4_000, 80_000);
    for _ in 0..n {
        let (pre, post) = r.pick(&[
            ("%m(", ")"), ("%m(a, ", ")"), ("%m(a=", ")"), ("%m(a, b=1, ", ")"), ("%let s = %str(", ");"), ("%str(", ")"), ("%put %upcase(", ");"),
            ("%m(%n(", "))"), ("%m((", "))"), ("%m(", ", b)"), ("%m(", " x)"), ("%let s = %str(x ", " y);"), ("%put %eval(", ");"), ("%put %sysfunc(cat(", "));"),
            ("%macro q; %m(", ") %mend;"), ("%macro q; %let s = %str(", "); %mend;"), ("%macro q; %put %left(", "); %mend;"),
        ]);
        let stmt = r.pick(&["%return", "%do; b %end", "%do; %end", "%do %while(&i<3)", "%do %until(1)", "%END", "%Return", "%do i=1 %to 2; x %end"]);
        let pad = r.pick(&["", "", " ", "  ", "\n", "/*c*/", " /* c */ ", "\u{a0}"]);
        let src = format!("{pre}{stmt}{pad}{post}");
        let at = pre.len() + stmt.len() + pad.len();
        let at = at + post.len() - post.trim_start().len();
        let d = grammar::Deletion {
            pos: at,
            prev_end: pre.len() + stmt.len(),
            error: sas_lexer::error::ErrorKind::MissingExpectedSemiOrEOF,
            token: TokenType::SEMI,
            hidden: false,
            construct: "stmt-inside-parens",
            padded: !pad.is_empty(),
            expect_at: Some(at),
        };
        st.src(Src::Targeted);
        st.cases += 1;
        let ex = exec(&src);
        st.observe_exec(&ex);
        let Some(res) = ex.result() else { continue };
        let v = View::new(&src, res);
        st.observe_view(&v);
        let mut fs = wellformed::check_c14(&d, at, &v);
        fs.extend(wellformed::check_eoi_recovery(&v, &ex));
        record(st, &fs, &[&src]);
        st.count("deleted_stmt-inside-parens_SEMI", 1);
        if d.padded {
            st.nontrivial(src.as_bytes(), || sample(&src, Some(res), &format!("';' omitted after a statement inside parentheses (expected error at byte {at})")));
        }
    }
    // more than 65 535 pending modes (about 13 200 calls nested in argument position) with a
    // speculation that rolls back at that depth; optimized builds only (the debug build's loop
    // detector clones the mode stack on every step)
    if !run::DEBUG_BUILD && ctx.shard < 4 {
        let n = [13_200usize, 14_000, 26_300, 13_150][ctx.shard];
        let opener = ["%a(", "%a(", "%a(b=", "%upcase("][ctx.shard];
        // (a) the ',' of %scan omitted after a first argument that deep
        let head = format!("%put %scan({}x y{}", opener.repeat(n), ")".repeat(n));
        let src = format!("{head});");
        let at = head.len();
        st.cases += 1;
        let ex = exec(&src);
        st.observe_exec(&ex);
        if let Some(res) = ex.result() {
            let v = View::new(&src, res);
            let d = grammar::Deletion {
                pos: at,
                prev_end: at,
                error: sas_lexer::error::ErrorKind::MissingExpectedComma,
                token: TokenType::COMMA,
                hidden: false,
                construct: "%scan-deep-first-arg",
                padded: false,
                expect_at: Some(at),
            };
            let fs = wellformed::check_c14(&d, at, &v);
            record(st, &fs, &[&src]);
            st.count("deep_first_argument_cases", 1);
            st.nontrivial(src.as_bytes(), || sample(&src, Some(res), &format!("',' omitted after a first argument nested {n} calls deep ({} modes pending)", ex.report.max_mode_depth)));
        }
        // (b) the same nest cut at its deepest point
        let cut = format!("{}x y", opener.repeat(n));
        c14_eoi_case(st, &cut);
    }
    // more than 2^20 diagnostics before the omitted delimiter (optimized builds only)
    if !run::DEBUG_BUILD && ctx.shard == 4 {
        let head = "1e;".repeat((1 << 20) + 4096);
        let src = format!("{head}%let a b;");
        let at = head.len() + "%let a ".len();
        st.cases += 1;
        let ex = exec(&src);
        st.observe_exec(&ex);
        if let Some(res) = ex.result() {
            let v = View::new(&src, res);
            let d = grammar::Deletion {
                pos: at,
                prev_end: at,
                error: sas_lexer::error::ErrorKind::MissingExpectedAssign,
                token: TokenType::ASSIGN,
                hidden: false,
                construct: "%let-after-2^20-errors",
                padded: false,
                expect_at: Some(at),
            };
            let fs = wellformed::check_c14(&d, at, &v);
            record(st, &fs, &[&src]);
            st.count("omission_after_2pow20_errors_cases", 1);
            st.count("errors_in_largest_error_list", res.errors.len() as i128);
        }
    }
    // the end-of-input row holds for any source: whatever is still expected when the input ends
    // is discharged by its recovery token
    let m = ctx.draws(30_000, 600_000);
    for _ in 0..m {
        let (s, src) = gen::general(&mut r, ctx.corpus, ctx.tier);
        st.src(src);
        c14_eoi_case(st, &s);
        if r.chance(1, 3) {
            c14_truncations(st, &s, &mut r);
        }
    }
}

fn c14_eoi_case(st: &mut Stats, src: &str) {
    st.cases += 1;
    let ex = exec(src);
    st.observe_exec(&ex);
    let Some(res) = ex.result() else { return };
    let v = View::new(src, res);
    let fs = wellformed::check_eoi_recovery(&v, &ex);
    record(st, &fs, &[src]);
    if let Some(e) = &ex.report.end_of_input {
        let owing = e.modes.iter().filter(|m| m.starts_with("Expect") || m.starts_with("StringExpr") || m.contains("pnl: ") && !m.contains("pnl: 0")).count();
        if owing > 0 {
            st.count("eoi_cases_with_pending_expectations", 1);
            st.count(&format!("eoi_pending_{}", owing.min(6)), 1);
        }
        if owing >= 2 {
            st.nontrivial(src.as_bytes(), || sample(src, Some(res), "input ends with several expectations pending"));
        }
    }
}

/// Cut a source at random places (optionally leaving a lone quote behind) and check the
/// end-of-input row on each prefix.
fn c14_truncations(st: &mut Stats, s: &str, r: &mut Rng) {
    if s.is_empty() {
        return;
    }
    for _ in 0..3 {
        let mut cut = r.range(1, s.len());
        while !s.is_char_boundary(cut) {
            cut -= 1;
        }
        let mut t = s[..cut].to_string();
        match r.below(8) {
            0 => t.push('"'),
            1 => t.push('\''),
            2 => t.push('('),
            _ => {}
        }
        st.src(Src::GrammarTrunc);
        c14_eoi_case(st, &t);
    }
}

pub fn c14_prog(st: &mut Stats, p: &grammar::Prog, r: &mut Rng) {
    for d in &p.deletions {
        match wellformed::apply_deletion(p, d) {
            wellformed::DeletionCase::Skip => st.count("deletions_skipped_not_effective", 1),
            wellformed::DeletionCase::Check { src, at } => {
                st.src(Src::Targeted);
                st.cases += 1;
                let ex = exec(&src);
                st.observe_exec(&ex);
                let Some(res) = ex.result() else { continue };
                let v = View::new(&src, res);
                st.observe_view(&v);
                let mut fs = wellformed::check_c14(d, at, &v);
                fs.extend(wellformed::check_eoi_recovery(&v, &ex));
                record(st, &fs, &[&src]);
                st.count(&format!("deleted_{}_{:?}", d.construct, d.token), 1);
                if d.padded {
                    st.nontrivial(src.as_bytes(), || sample(&src, Some(res), &format!("deleted {:?} of {} (expected error at byte {at})", d.token, d.construct)));
                }
                // the same omission with a character that belongs to nothing in its place
                if d.expect_at.is_none() && r.chance(1, 4) {
                    // control / catch-all characters, or a character that merely resembles the
                    // deleted delimiter (same low byte, or its full-width twin)
                    let dc = match d.token {
                        TokenType::LPAREN => '(',
                        TokenType::ASSIGN => '=',
                        TokenType::COMMA => ',',
                        TokenType::FSLASH => '/',
                        _ => ';',
                    };
                    let twins: Vec<char> = [0x100u32, 0x200, 0x2000, 0x2200, 0x2300, 0x3000, 0xFEE0, 0x1F600]
                        .iter()
                        .filter_map(|b| char::from_u32(b + dc as u32))
                        .filter(|c| !c.is_whitespace() && !c.is_alphanumeric() && !unicode_ident::is_xid_continue(*c))
                        .collect();
                    let foreign = if !twins.is_empty() && r.chance(1, 2) {
                        twins[r.below(twins.len())]
                    } else {
                        r.pick(&['\0', '\u{1}', '\u{7f}', '`', '\\', '\u{200b}', '\u{feff}'])
                    };
                    let src2 = format!("{}{}{}", &src[..at], foreign, &src[at..]);
                    st.cases += 1;
                    let ex2 = exec(&src2);
                    st.observe_exec(&ex2);
                    if let Some(res2) = ex2.result() {
                        let v2 = View::new(&src2, res2);
                        let mut fs = wellformed::check_c14(d, at, &v2);
                        for f in &mut fs {
                            f.sig.push_str("|foreign-char-in-place");
                        }
                        record(st, &fs, &[&src2]);
                        st.count("deletions_with_foreign_char_in_place", 1);
                    }
                }
            }
        }
    }
    // end-of-input row: cut inside a call's parentheses
    let calls: Vec<(usize, usize)> = p
        .marks
        .iter()
        .filter_map(|m| if let Mark::Call { lp, rp } = m { Some((*lp, *rp)) } else { None })
        .collect();
    if !calls.is_empty() {
        let (lp, rp) = calls[r.below(calls.len())];
        let cut_lo = lp + 1;
        if rp >= cut_lo {
            let mut cut = r.range(cut_lo, rp);
            while !p.s.is_char_boundary(cut) {
                cut -= 1;
            }
            // a cut inside a `%name` token can turn a call into a statement keyword (`%do_it` ->
            // `%do`), which legitimately consumes the expectation earlier: move the cut before it
            if let Some(pc) = p.s[..cut].rfind('%') {
                if pc > lp && p.s[pc + 1..cut].chars().all(|c| c == '_' || c.is_alphanumeric()) {
                    cut = pc;
                }
            }
            // never split a comment opener
            if p.s[..cut].ends_with('/') && p.s[cut..].starts_with('*') {
                cut -= 1;
            }
            let src = &p.s[..cut];
            st.src(Src::GrammarTrunc);
            st.cases += 1;
            let ex = exec(src);
            st.observe_exec(&ex);
            if let Some(res) = ex.result() {
                let v = View::new(src, res);
                st.observe_view(&v);
                let mut fs = wellformed::check_c14_eof(&v);
                fs.extend(wellformed::check_eoi_recovery(&v, &ex));
                record(st, &fs, &[src]);
                st.count("eof_inside_call_cases", 1);
                if ex.report.end_of_input.as_ref().is_some_and(|e| e.modes.len() >= 3) {
                    st.nontrivial(src.as_bytes(), || sample(src, Some(res), "input ends inside a call"));
                }
            }
        }
    }
}

// ---------------------------------------------------------------------------------------------
// C15

pub fn c15(ctx: &Ctx, st: &mut Stats) {
    if run::MACRO_SEP {
        st.harness_errors.push("C15 is decided in the default feature set only".into());
        return;
    }
    let mut r = ctx.rng(0);
    let n = ctx.draws(120_000, 2_500_000);
    for _ in 0..n {
        // choose A
        let mut lookbehind_b = false;
        let (a, a_src) = match r.below(40) {
            38 => {
                // a closed statement followed by hundreds to thousands of comment / white-space
                // tokens: every look-behind has to walk (or give up walking) over them
                let n = r.pick(&[100usize, 520, 600, 1100, 3000]);
                let c = r.pick(&["* c;\n", "%* c;\n", "*c;", "%*c; "]);
                lookbehind_b = true;
                st.count("long_trivia_prefixes", 1);
                (format!("data a; x = 1;\n{}", c.repeat(n)), "arbitrary")
            }
            37 => {
                // a closed prefix that has already raised hundreds to thousands of diagnostics
                let n = r.pick(&[300usize, 600, 1100, 5000]);
                let u = r.pick(&["%let ;", "x = 'zz'x;\n", "y = 1e;", "%put %eval(1 +);\n"]);
                st.count("many_error_prefixes", 1);
                (u.repeat(n), "arbitrary")
            }
            39 => {
                let levels = r.pick(&[8usize, 31, 32, 33, 40, 41, 64, 65, 130]);
                let p = grammar::gen_deep_program(&mut r, ctx.tier.gcfg(), levels);
                st.count("deep_prefixes", 1);
                (p.s.trim_end().to_string(), "grammar-boundary")
            }
            x if x % 10 <= 3 => {
                let p = grammar::gen_program(&mut r, ctx.tier.gcfg());
                // cut at a recorded boundary
                let bs: Vec<usize> = p.marks.iter().filter_map(|m| if let Mark::Boundary { pos } = m { Some(*pos) } else { None }).collect();
                if bs.is_empty() {
                    (p.s, "grammar")
                } else {
                    let b = r.pick(&bs);
                    (p.s[..b].to_string(), "grammar-boundary")
                }
            }
            x if x % 10 <= 6 => {
                let (mut s, _) = gen::general(&mut r, ctx.corpus, ctx.tier);
                if r.chance(1, 2) {
                    s.push(';');
                }
                (s, "arbitrary")
            }
            _ => {
                let mut s = soup::macro_soup(&mut r, 6);
                s.push_str(r.pick(&[";", "%end;", "%mend;", ");", "* c;", "%* c;", ";;"]));
                (s, "arbitrary")
            }
        };
        st.cases += 1;
        let ex_a = exec(&a);
        st.observe_exec(&ex_a);
        st.count("prefixes_tried", 1);
        if let Some(ra) = ex_a.result() {
            let va = View::new(&a, ra);
            let fs = compose::check_state_shadow(&va, &ex_a);
            record(st, &fs, &[&a]);
        }
        if !compose::is_closed(&a, &ex_a, a_src == "grammar-boundary") {
            continue;
        }
        if a_src == "grammar-boundary" && ex_a.report.end_of_input.as_ref().is_some_and(|e| !e.is_initial()) {
            st.count("generated_prefixes_with_residual_state", 1);
        }
        st.count(&format!("closed_prefixes_{a_src}"), 1);
        let Some(ra) = ex_a.result() else { continue };
        // choose B
        let b = match if lookbehind_b { 10 } else { r.below(10) } {
            10 => r.pick(&["datalines;\n1 2\n;", "cards4;\na;b\n;;;;", "%let x=1;", "%lbl: x;", "%macro m; %mend;", "* c;", "lines;\n;", "%put a;"]).to_string(),
            0 | 1 => (r.pick(&[
                "datalines;\n1 2\n;", "cards4;\na;b\n;;;;", "* c;", "*c", "= 1", " = 1;", "%let x=1;", "%lbl: x;", "%m", "%m(a)", "x", ";",
                "%end;", "%mend;", "%else x;", "%then y;", ")", "\"", "'", "/*", "%to 3;", "%by 1;", "&a", "1", "\n", " ", "lines;", "%do;",
                "%put a;", "%if 1 %then x;", "%macro m; * c; %mend;", "%str(a)", "%eval(1)", "%*c;", "**", "cards", "%until(1);",
                "* a %x b;", "* a\n%let q=1; y;", "%m x", "%m /*c*/ x;", "%m(a b)", "%lbl: * c;", "x %lbl:", "%if = 1 %then x;", "%eval( eq )", "%do i = %to 2;",
                "%mend; * c;", "%end; * c;", "%mend;\n* a %x;", "%let a=b; * c;",
            ]))
            .to_string(),
            2..=4 => grammar::gen_program(&mut r, ctx.tier.gcfg()).s,
            _ => gen::general(&mut r, ctx.corpus, ctx.tier).0,
        };
        // a tenth of the pairs repeat (a mutation of) the prefix itself: state left behind by a
        // construct is most likely to matter when the same kind of construct comes again
        let b = if r.chance(1, 10) {
            if r.chance(1, 2) { a.clone() } else { mutate::mutate_once(&a, &mut r) }
        } else {
            b
        };
        if b.starts_with('\u{feff}') {
            continue;
        }
        let ex_b = exec(&b);
        st.observe_exec(&ex_b);
        let ab = format!("{a}{b}");
        let ex_ab = exec(&ab);
        st.observe_exec(&ex_ab);
        if ex_b.result().is_some() && ex_ab.result().is_none() {
            // A and B lex on their own but A followed by B does not return: state crossed the boundary
            let cls = match &ex_ab.outcome {
                Outcome::Panic(p) => format!("panic|{}", p.frames.first().cloned().unwrap_or_default()),
                Outcome::Budget(b) => format!("budget|{}", b.counter),
                _ => "refused".into(),
            };
            st.violation(&Finding::new("C15.outcome", &cls, "A and B lex separately, A followed by B does not return".into()), &[&a, &b]);
            continue;
        }
        let (Some(rb), Some(rab)) = (ex_b.result(), ex_ab.result()) else {
            st.count("pairs_skipped_panic_or_budget", 1);
            continue;
        };
        let fs = compose::check_c15(&a, ra, rb, rab);
        record(st, &fs, &[&a, &b]);
        st.count("closed_pairs_checked", 1);
        let va = View::new(&a, ra);
        st.observe_view(&va);
        let semis = va.toks.iter().filter(|t| t.ty == TokenType::SEMI).count();
        let has_macro = va.toks.iter().any(|t| format!("{:?}", t.ty).starts_with("Kwm") || matches!(t.ty, TokenType::MacroIdentifier | TokenType::MacroVarResolve));
        if (semis >= 2 || has_macro) && !b.is_empty() {
            let mut key = a.clone().into_bytes();
            key.push(0xff);
            key.extend_from_slice(b.as_bytes());
            st.nontrivial(&key, || {
                let mut j = J::obj();
                j.set("A", clip(&a, 200));
                j.set("B", clip(&b, 200));
                j.set("A_decisions", ex_a.report.decisions.clone());
                j
            });
        }
    }
}

// ---------------------------------------------------------------------------------------------
// C16 / C17

fn c16_pair(st: &mut Stats, s: &str, m: &str, kw_touched: bool) {
    st.cases += 1;
    let e1 = exec(s);
    let e2 = exec(m);
    st.observe_exec(&e1);
    st.observe_exec(&e2);
    match (e1.result(), e2.result()) {
        (Some(r1), Some(r2)) => {
            let fs = meta::check_c16(r1, r2);
            record(st, &fs, &[s, m]);
            let v = View::new(s, r1);
            st.observe_view(&v);
            // non-trivial: a changed letter lies inside a keyword / mnemonic / suffix / numeric token
            let mut nontriv = kw_touched;
            if !nontriv {
                let sb = s.as_bytes();
                let mb = m.as_bytes();
                for (i, t) in v.toks.iter().enumerate() {
                    let name = format!("{:?}", t.ty);
                    let interesting = name.starts_with("Kw")
                        || name.ends_with("Literal")
                        || name.ends_with("LiteralExprEnd")
                        || t.ty == TokenType::DatalinesStart;
                    if interesting && sb.len() == mb.len() && t.b1 <= sb.len() && sb[t.b0..t.b1] != mb[t.b0..t.b1] {
                        nontriv = true;
                        let _ = i;
                        break;
                    }
                }
            }
            if nontriv {
                st.nontrivial(m.as_bytes(), || {
                    let mut j = J::obj();
                    j.set("input", clip(s, 200));
                    j.set("case_variant", clip(m, 200));
                    j
                });
            }
        }
        (None, None) => {}
        _ => {
            st.violation(
                &Finding::new("C16.outcome", "one-side-failed", "one case variant returned a result and the other panicked / hit a budget".into()),
                &[s, m],
            );
        }
    }
}

pub fn c16(ctx: &Ctx, st: &mut Stats) {
    let mut r = ctx.rng(0);
    let n = ctx.draws(100_000, 2_000_000);
    for _ in 0..n {
        let (s, src) = gen::general(&mut r, ctx.corpus, ctx.tier);
        st.src(src);
        let mode = r.below(4);
        let m = match mode {
            0 => meta::mangle_case(&s, |_| true),
            1 => s.to_ascii_uppercase(),
            2 => s.to_ascii_lowercase(),
            _ => {
                let mut rr = Rng::new(r.next_u64());
                meta::mangle_case(&s, |_| rr.chance(1, 2))
            }
        };
        if m != s {
            c16_pair(st, &s, &m, false);
        }
    }
    // all 2^n case variants of every keyword in context
    let kt = shapes::keyword_table();
    let mut items: Vec<(String, String, String)> = Vec::new(); // (prefix, word, suffix)
    for (t, kws) in kt {
        let name = format!("{t:?}");
        for k in kws {
            let lk = k.to_ascii_lowercase();
            if name.starts_with("Kwm") {
                items.push((String::from("%"), lk.clone(), String::from("(a,1) x;")));
                items.push((String::from("%if 1 %then %"), lk.clone(), String::from(" a=1;")));
                items.push((String::from("%do %"), lk.clone(), String::from("(1); %end;")));
            } else {
                items.push((String::from("x "), lk.clone(), String::from(" y;")));
                items.push((String::new(), lk.clone(), String::from(";")));
            }
        }
    }
    for m in ["eq", "ne", "lt", "le", "gt", "ge", "and", "or", "not", "in"] {
        items.push(("%eval(a ".into(), m.into(), " b)".into()));
        items.push(("%if 1 ".into(), m.into(), " 2 %then x;".into()));
        items.push(("%eval(".into(), m.into(), " b)".into()));
        items.push(("%sysevalf(1.5 ".into(), m.into(), " 2)".into()));
    }
    for sfx in ["b", "d", "dt", "n", "t", "x"] {
        items.push(("x='41'".into(), sfx.into(), ";".into()));
        items.push(("x=\"41\"".into(), sfx.into(), ";".into()));
        items.push(("x=\"&a.41\"".into(), sfx.into(), ";".into()));
    }
    for w in ["datalines", "cards", "lines", "datalines4", "cards4", "lines4"] {
        items.push((";".into(), w.into(), ";\n1 2\n;;;;".into()));
        items.push((String::new(), w.into(), " ;\nab\n;".into()));
    }
    for (pre, w, suf) in [
        ("x=", "1e5", ";"), ("x=", "1.5e-3", ";"), ("x=", "0ffx", ";"), ("x=", "0abcdefx", ";"), ("%eval(", "0ffx", ")"),
        ("%sysevalf(", "1e5", ")"), ("x='", "4a4b", "'x;"), ("x=\"", "4a,4b", "\"x;"), ("x=", "1ex", ";"), ("x=", "12ab", ";"),
    ] {
        items.push((pre.into(), w.into(), suf.into()));
    }
    items.sort();
    for (i, (pre, w, suf)) in items.iter().enumerate() {
        if i % ctx.nshards != ctx.shard {
            continue;
        }
        let letters = w.chars().filter(char::is_ascii_alphabetic).count();
        let all = letters <= if ctx.tier == Tier::Quick { 6 } else { 10 };
        let variants: Vec<u32> = if all {
            (0..(1u32 << letters)).collect()
        } else {
            let cnt = if ctx.tier == Tier::Quick { 64 } else { 1024 };
            (0..cnt).map(|_| (r.next_u64() as u32) & ((1u32 << letters.min(31)) - 1)).collect()
        };
        let base = format!("{pre}{w}{suf}");
        for mask in variants {
            if mask == 0 {
                continue;
            }
            let mw = meta::mangle_case(w, |k| mask >> (k % 32) & 1 == 1);
            let m = format!("{pre}{mw}{suf}");
            st.src(Src::Targeted);
            c16_pair(st, &base, &m, true);
            st.count("keyword_case_variants", 1);
        }
    }
}

fn c17_one(st: &mut Stats, s: &str, src: Src) {
    if s.starts_with('\u{feff}') {
        return;
    }
    st.src(src);
    st.cases += 1;
    let b = format!("\u{feff}{s}");
    let e1 = exec(s);
    let e2 = exec(&b);
    st.observe_exec(&e1);
    st.observe_exec(&e2);
    match (e1.result(), e2.result()) {
        (Some(r1), Some(r2)) => {
            let fs = meta::check_c17(r1, r2);
            record(st, &fs, &[s]);
            let v = View::new(s, r1);
            st.observe_view(&v);
            let on1 = v.toks.iter().any(|t| t.line == 1 && t.ty != TokenType::EOF);
            let later = v.toks.iter().any(|t| t.line > 1);
            if on1 && later {
                st.nontrivial(s.as_bytes(), || sample(s, Some(r2), "observed = result with BOM"));
            }
        }
        (None, None) => {}
        _ => st.violation(
            &Finding::new("C17.outcome", "one-side-failed", "with/without BOM: one returned a result, the other panicked / hit a budget".into()),
            &[s],
        ),
    }
}

pub fn c17(ctx: &Ctx, st: &mut Stats) {
    let mut r = ctx.rng(0);
    let n = ctx.draws(100_000, 2_000_000);
    for _ in 0..n {
        let (s, src) = gen::general(&mut r, ctx.corpus, ctx.tier);
        c17_one(st, &s, src);
    }
    let n = ctx.draws(60_000, 1_000_000);
    for _ in 0..n {
        let s = match r.below(6) {
            0 => tg::datalines_case(&mut r),
            1 => tg::empty_token_case(&mut r),
            2 => tg::speculation_case(&mut r),
            3 => {
                let b = gen::general(&mut r, ctx.corpus, ctx.tier).0;
                tg::lf_variant(&b, &mut r)
            }
            4 => format!("{}{}", r.pick(&["* c;", "*", "%lbl:", "%let a=1;", "datalines;\n1\n;", "\n", "", "%m", "%macro m;", "cards4;\n;;;;", "= 1", "%end;"]), r.pick(&["", "\n", "\nx;", " x\ny"])),
            _ => grammar::gen_program(&mut r, ctx.tier.gcfg()).s,
        };
        c17_one(st, &s, Src::Targeted);
        if r.chance(1, 8) {
            // first-character family: the only character the lexer may treat specially at offset 0
            // is U+FEFF; its look-alikes (byte-swapped mark, non-characters, zero-width and control
            // characters, the mark's mojibake) are ordinary text in both sources
            let head = r.pick(&[
                "\u{fffe}", "\u{ffff}", "\u{200b}", "\u{2060}", "\u{fe0f}", "ï»¿", "\0", "\u{1a}", "\u{85}", "\u{a0}", "\u{2028}", "\u{fdd0}", "\u{feff}\u{fffe}", "\u{fffe}\u{feff}", "\u{fefe}",
                "\u{ff}\u{fe}", "\u{fe}\u{ff}",
            ]);
            let t = if r.chance(1, 3) { String::new() } else { s.clone() };
            if !head.starts_with('\u{feff}') {
                c17_one(st, &format!("{head}{t}"), Src::Targeted);
            }
        }
    }
    for k in (ctx.shard..soup::short_space_size(soup::SHORT_ALPHABET_40, 2)).step_by(ctx.nshards) {
        c17_one(st, &soup::short_string(soup::SHORT_ALPHABET_40, 2, k), Src::Short);
    }
}
