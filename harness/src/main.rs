//! `slv` — runtime-monitoring harness for sas-lexer (see /verif/DESIGN.md).

mod alloc;
mod diffprops;
mod gen;
mod json;
mod oracle;
mod props;
mod rng;
mod run;
mod stats;
mod view;

use gen::mutate::{load_corpus, Corpus};
use gen::Tier;
use json::{hex, J};
use props::Ctx;
use stats::Stats;
use std::io::Write;

#[cfg(not(miri))]
#[global_allocator]
static GLOBAL: alloc::Counting = alloc::Counting;

fn arg<'a>(args: &'a [String], name: &str) -> Option<&'a str> {
    args.iter().position(|a| a == name).and_then(|i| args.get(i + 1)).map(String::as_str)
}

fn unhex(h: &str) -> Option<String> {
    let b = h.as_bytes();
    if b.len() % 2 != 0 {
        return None;
    }
    let mut out = Vec::with_capacity(b.len() / 2);
    for p in b.chunks(2) {
        out.push(u8::from_str_radix(std::str::from_utf8(p).ok()?, 16).ok()?);
    }
    String::from_utf8(out).ok()
}

fn build_info() -> J {
    J::obj()
        .with("debug_assertions", run::DEBUG_BUILD)
        .with("hooks", run::HOOKS)
        .with("macro_sep", run::MACRO_SEP)
        .with("miri", cfg!(miri))
}

fn run_shard(ctx: &Ctx, st: &mut Stats) -> Vec<(usize, u128)> {
    match ctx.prop {
        "C01" => props::c01(ctx, st),
        "C02" | "C03" | "C04" | "C05" | "C06" | "C07" | "C09" | "C10" => props::structural(ctx, st),
        "C08" => props::c08(ctx, st),
        "C11" => props::c11(ctx, st),
        "C12" => props::c12(ctx, st),
        "C13" => props::c13(ctx, st),
        "C14" => props::c14(ctx, st),
        "C15" => props::c15(ctx, st),
        "C16" => props::c16(ctx, st),
        "C17" => props::c17(ctx, st),
        "C18" => return diffprops::dump_blocks(ctx, st),
        "C19" => {
            let blocks = diffprops::dump_blocks(ctx, st);
            if run::HOOKS {
                diffprops::c19_history(ctx, st);
            }
            return blocks;
        }
        other => st.harness_errors.push(format!("unknown property {other}")),
    }
    Vec::new()
}

fn cmd_run(args: &[String]) -> i32 {
    let Some(prop) = args.first().cloned() else {
        eprintln!("usage: slv run <PROP> --tier quick|thorough --seed N [--threads N] [--scale F] [--dump-out FILE]");
        return 2;
    };
    let tier = if arg(args, "--tier") == Some("thorough") { Tier::Thorough } else { Tier::Quick };
    let seed: u64 = arg(args, "--seed").and_then(|s| s.parse().ok()).unwrap_or(1);
    let threads: usize = arg(args, "--threads").and_then(|s| s.parse().ok()).unwrap_or(16).max(1);
    let scale: f64 = arg(args, "--scale").and_then(|s| s.parse().ok()).unwrap_or(1.0);
    let only_shard: Option<usize> = arg(args, "--shard").and_then(|s| s.parse().ok());
    if let Err(e) = oracle::shapes::self_check() {
        println!("@@SLV {}", J::obj().with("harness_error", e).to_string());
        return 2;
    }
    run::install_panic_hook();
    let corpus = load_corpus();
    let t0 = std::time::Instant::now();
    let mut total = Stats::default();
    let mut blocks: Vec<(usize, u128)> = Vec::new();
    let results: Vec<(Stats, Vec<(usize, u128)>)> = std::thread::scope(|sc| {
        let mut hs = Vec::new();
        for shard in 0..threads {
            if only_shard.is_some_and(|o| o != shard) {
                continue;
            }
            let corpus: &Corpus = &corpus;
            let prop = prop.clone();
            hs.push(
                std::thread::Builder::new()
                    .stack_size(64 << 20)
                    .spawn_scoped(sc, move || {
                        let ctx = Ctx { prop: &prop, seed, shard, nshards: threads, tier, corpus, scale };
                        let mut st = Stats::default();
                        let r = std::panic::catch_unwind(std::panic::AssertUnwindSafe(|| run_shard(&ctx, &mut st)));
                        match r {
                            Ok(b) => (st, b),
                            Err(e) => {
                                let msg = e
                                    .downcast_ref::<String>()
                                    .cloned()
                                    .or_else(|| e.downcast_ref::<&str>().map(|s| (*s).to_string()))
                                    .unwrap_or_else(|| "harness panic".into());
                                st.harness_errors.push(format!("shard {shard} died: {msg}"));
                                (st, Vec::new())
                            }
                        }
                    })
                    .expect("spawn"),
            );
        }
        hs.into_iter().map(|h| h.join().expect("join")).collect()
    });
    for (st, b) in results {
        total.merge(st);
        blocks.extend(b);
    }
    if prop == "C19" && run::HOOKS && !cfg!(miri) {
        diffprops::c19_schedule(seed, tier, scale, &corpus, threads, &mut total);
    }
    blocks.sort_unstable();
    if let Some(path) = arg(args, "--dump-out") {
        let mut f = std::fs::File::create(path).expect("dump-out");
        for (b, h) in &blocks {
            let _ = writeln!(f, "{b} {h:032x}");
        }
    }
    let mut j = total.to_json();
    j.set("property", prop.as_str());
    j.set("tier", tier.name());
    j.set("seed", seed);
    j.set("threads", threads);
    j.set("build", build_info());
    j.set("wall_s", t0.elapsed().as_secs_f64());
    j.set("corpus_small", corpus.small.len());
    j.set("corpus_large", corpus.large.len());
    j.set("blocks", blocks.len());
    println!("@@SLV {}", j.to_string());
    0
}

/// Re-run the oracle of a property on a given input and print what it finds.
fn cmd_replay(args: &[String]) -> i32 {
    let Some(prop) = args.first().cloned() else { return 2 };
    let Some(input) = arg(args, "--hex").and_then(unhex) else {
        eprintln!("need --hex <input as hex>");
        return 2;
    };
    let input2 = arg(args, "--hex2").and_then(unhex);
    run::install_panic_hook();
    let corpus = Corpus { small: vec![], large: vec![] };
    let _ = &corpus;
    let mut st = Stats::default();
    match prop.as_str() {
        "C01" => {
            // reuse the C01 single-input path through a tiny context
            props::structural_one("C01x", &mut st, &input, gen::Src::Targeted);
            let ex = run::exec(&input);
            match &ex.outcome {
                run::Outcome::Panic(p) => println!("PANIC {} :: {} at {}", p.signature(), p.message, p.location),
                run::Outcome::Budget(b) => println!("BUDGET {} value {} mode {}", b.counter, b.value, b.mode),
                run::Outcome::Refused(e) => println!("REFUSED {e}"),
                run::Outcome::Ok(res) => {
                    println!("OK tokens={} errors={}", res.buffer.token_count(), res.errors.len());
                    for e in &res.errors {
                        if e.error_kind().is_internal() {
                            println!("INTERNAL {:?}", e.error_kind());
                        }
                    }
                    println!("{}", view::render(&input, res, 200));
                }
            }
            println!("report: main_iters={} cursor_steps={} tokens={} errors={} decisions={}", ex.report.main_iters, ex.report.cursor_steps, ex.report.tokens, ex.report.errors, ex.report.decisions);
        }
        "C15" => {
            let b = input2.unwrap_or_default();
            let (ea, eb) = (run::exec(&input), run::exec(&b));
            let ab = format!("{input}{b}");
            let eab = run::exec(&ab);
            println!("A closed: {}", oracle::compose::is_closed(&input, &ea, false));
            if let (Some(ra), Some(rb), Some(rab)) = (ea.result(), eb.result(), eab.result()) {
                for f in oracle::compose::check_c15(&input, ra, rb, rab) {
                    println!("FINDING {} :: {}", f.sig, f.msg);
                }
                println!("A : {}", view::render(&input, ra, 100));
                println!("B : {}", view::render(&b, rb, 100));
                println!("AB: {}", view::render(&ab, rab, 200));
            }
        }
        "C16" => {
            let m = input2.unwrap_or_else(|| oracle::meta::mangle_case(&input, |_| true));
            let (e1, e2) = (run::exec(&input), run::exec(&m));
            if let (Some(r1), Some(r2)) = (e1.result(), e2.result()) {
                for f in oracle::meta::check_c16(r1, r2) {
                    println!("FINDING {} :: {}", f.sig, f.msg);
                }
                println!("orig   : {}", view::render(&input, r1, 100));
                println!("variant: {}", view::render(&m, r2, 100));
            }
        }
        "C17" => {
            let b = format!("\u{feff}{input}");
            let (e1, e2) = (run::exec(&input), run::exec(&b));
            if let (Some(r1), Some(r2)) = (e1.result(), e2.result()) {
                for f in oracle::meta::check_c17(r1, r2) {
                    println!("FINDING {} :: {}", f.sig, f.msg);
                }
                println!("plain: {}", view::render(&input, r1, 100));
                println!("bom  : {}", view::render(&b, r2, 100));
            }
        }
        "C18" | "C19" => {
            let ob = diffprops::outcome_bytes(&prop, &input, Some(&mut st));
            println!("outcome hash {:032x} ({} bytes)", view::hash128(&ob), ob.len());
            let ex = run::exec(&input);
            if let Some(res) = ex.result() {
                println!("{}", view::render(&input, res, 200));
            }
        }
        p => {
            let ex = run::exec(&input);
            match ex.result() {
                None => println!("no result (panic / budget): C01 owns this input"),
                Some(res) => {
                    let v = view::View::new(&input, res);
                    let pt = oracle::structural::PosTables::new(&input);
                    let fs = match p {
                        "C02" => oracle::structural::check_c02(&v),
                        "C03" => oracle::structural::check_c03(&v, &pt),
                        "C04" => oracle::structural::check_c04(&v, &pt),
                        "C05" => oracle::structural::check_c05(&v),
                        "C06" => oracle::shapes::check_c06(&v, run::MACRO_SEP),
                        "C07" => oracle::payload::check_c07(&v),
                        "C08" => oracle::numeric::check_c08(&v),
                        "C09" => oracle::structural::check_c09(&v),
                        "C10" => oracle::structural::check_c10(&v),
                        "C11" => {
                            if oracle::reflex::is_macro_free(&input) {
                                oracle::reflex::check_c11(&v)
                            } else {
                                println!("input is not macro-free");
                                vec![]
                            }
                        }
                        "C12" | "C13" | "C14" => {
                            println!("(ground-truth oracles need the generator; showing the raw result)");
                            if let Some(eoi) = &ex.report.end_of_input {
                                println!("end-of-input configuration: {eoi:?}");
                            }
                            vec![]
                        }
                        _ => vec![],
                    };
                    for f in &fs {
                        println!("FINDING {} :: {}", f.sig, f.msg);
                    }
                    println!("{}", view::render(&input, res, 200));
                }
            }
        }
    }
    for v in st.violations.values() {
        println!("FINDING {} :: {}", v.sig, v.msg);
    }
    0
}

fn cmd_block(args: &[String]) -> i32 {
    let Some(prop) = args.first().cloned() else { return 2 };
    let tier = if arg(args, "--tier") == Some("thorough") { Tier::Thorough } else { Tier::Quick };
    let seed: u64 = arg(args, "--seed").and_then(|s| s.parse().ok()).unwrap_or(1);
    let scale: f64 = arg(args, "--scale").and_then(|s| s.parse().ok()).unwrap_or(1.0);
    let corpus = load_corpus();
    run::install_panic_hook();
    if let Some(k) = arg(args, "--k").and_then(|s| s.parse::<usize>().ok()) {
        let s = diffprops::diff_input(&prop, seed, k, tier, &corpus);
        println!("{}", hex(&s));
        return 0;
    }
    let Some(b) = arg(args, "--block").and_then(|s| s.parse::<usize>().ok()) else { return 2 };
    for (k, ih, oh, class) in diffprops::block_detail(&prop, seed, tier, scale, &corpus, b) {
        println!("{k} {ih:032x} {oh:032x} {class}");
    }
    0
}

/// Lex a file `--reps` times (used under cachegrind / valgrind for instruction counts).
fn cmd_lexfile(args: &[String]) -> i32 {
    let Some(path) = args.first() else { return 2 };
    let reps: usize = arg(args, "--reps").and_then(|s| s.parse().ok()).unwrap_or(1);
    let Ok(src) = std::fs::read_to_string(path) else { return 2 };
    if args.iter().any(|a| a == "--budget") {
        // hooked run under the linear work budgets: decides an endless loop by steps, not by time
        let ex = run::exec(&src);
        return match &ex.outcome {
            run::Outcome::Budget(b) => {
                println!("BUDGET {} {} {}", b.counter, b.value, b.mode);
                4
            }
            run::Outcome::Panic(p) => {
                println!("PANIC {}", p.signature());
                5
            }
            _ => {
                println!("ok");
                0
            }
        };
    }
    let mut toks = 0u64;
    for _ in 0..reps {
        match sas_lexer::lex_program(&src) {
            Ok(r) => toks += u64::from(r.buffer.token_count()),
            Err(_) => return 3,
        }
    }
    println!("tokens {toks}");
    0
}

/// Write a family member p(n) to a file (for the instruction-count scaling check).
fn cmd_family(args: &[String]) -> i32 {
    let (Some(idx), Some(n), Some(out)) = (
        arg(args, "--idx").and_then(|s| s.parse::<usize>().ok()),
        arg(args, "--n").and_then(|s| s.parse::<usize>().ok()),
        arg(args, "--out"),
    ) else {
        println!("{}", gen::FAMILIES.len());
        return 0;
    };
    let s = gen::family(idx, n);
    std::fs::write(out, s).expect("write");
    println!("{}", gen::FAMILIES[idx % gen::FAMILIES.len()].0);
    0
}

/// Write generated inputs for the Python-side check (C20): u32 length prefix + u8 kind + bytes.
fn cmd_gen(args: &[String]) -> i32 {
    let tier = if arg(args, "--tier") == Some("thorough") { Tier::Thorough } else { Tier::Quick };
    let seed: u64 = arg(args, "--seed").and_then(|s| s.parse().ok()).unwrap_or(1);
    let n: usize = arg(args, "--n").and_then(|s| s.parse().ok()).unwrap_or(1000);
    let Some(out) = arg(args, "--out") else { return 2 };
    let corpus = load_corpus();
    let mut r = rng::Rng::derive(seed, 20, 20, 20);
    let mut f = std::io::BufWriter::new(std::fs::File::create(out).expect("out"));
    let mut put = |kind: u8, s: &str| {
        let _ = f.write_all(&(s.len() as u32).to_le_bytes());
        let _ = f.write_all(&[kind]);
        let _ = f.write_all(s.as_bytes());
    };
    for p in &corpus.large {
        put(1, p);
    }
    for i in 0..n {
        if i % 40 == 7 {
            // well-formed, deeply nested calls (must return, like any well-formed program)
            let k = r.pick(&[10usize, 26, 30, 60, 100, 200]);
            let (open, close) = r.pick(&[("%m(", ")"), ("%sysfunc(abs(", "))"), ("%str(", ")"), ("%m(a=", ")"), ("%upcase(", ")"), ("%eval((", "))"), ("%scan(%sysfunc(strip(%str(", "))),1)")]);
            let s = format!("%put {}{}{};\n", open.repeat(k), "x", close.repeat(k));
            put(1, &s);
            continue;
        }
        if i % 40 == 17 {
            // size classes of the wire format: the literal buffer, the token and error arrays,
            // integers, offsets and line numbers on both sides of 2^4, 2^5, 2^7, 2^8, 2^16 (and 2^32
            // for integer payloads) — every length/width prefix of the serialised tuple
            let s = match r.below(7) {
                0 => {
                    let l = r.pick(&[30usize, 31, 32, 33, 255, 256, 257, 258, 300, 513, 1000, 65_535, 65_536, 65_537, 70_000]);
                    let q = r.pick(&["'", "\""]);
                    format!("x = {q}a{q}{q}{}{q};\ny = 'it''s';\n", "b".repeat(l - 2))
                }
                1 => {
                    // many short escaped literals adding up
                    let k = r.pick(&[10usize, 64, 85, 86, 100, 22_000]);
                    "t 'a''b';".repeat(k)
                }
                2 => {
                    let k = r.pick(&[6usize, 7, 8, 9, 15, 16, 32_766, 32_767, 32_768, 32_769]);
                    "a;".repeat(k)
                }
                3 => {
                    let k = r.pick(&[14usize, 15, 16, 17, 65_535, 65_536, 65_537]);
                    "1e;".repeat(k)
                }
                4 => {
                    let v = r.pick(&[
                        "127", "128", "255", "256", "32767", "32768", "65535", "65536", "2147483647", "2147483648", "4294967295", "4294967296", "9223372036854775807",
                        "9223372036854775808", "18446744073709551615", "0ffx", "0ffffx", "0ffffffffx", "0ffffffffffffffffx",
                    ]);
                    format!("a = {v}; %let b = %eval({v} + 1);")
                }
                5 => {
                    let k = r.pick(&[126usize, 127, 128, 254, 255, 256, 65_534, 65_535, 65_536, 70_000]);
                    format!("{}x = 'q''r';\n y;", "\n".repeat(k))
                }
                _ => {
                    let k = r.pick(&[126usize, 127, 128, 254, 255, 256, 65_534, 65_535, 65_536, 70_000]);
                    format!("{} = 'q''r'; é\ny;", "x".repeat(k))
                }
            };
            put(1, &s);
            continue;
        }
        if i % 40 == 27 {
            let levels = r.pick(&[8usize, 33, 65, 130]);
            put(1, &gen::grammar::gen_deep_program(&mut r, tier.gcfg(), levels).s);
            continue;
        }
        match i % 4 {
            0 | 1 => put(1, &gen::grammar::gen_program(&mut r, tier.gcfg()).s),
            2 => {
                let (s, _) = gen::general(&mut r, &corpus, tier);
                put(0, &gen::targeted::multibyte_variant(&s, &mut r));
            }
            _ => put(0, &gen::general(&mut r, &corpus, tier).0),
        }
    }
    0
}

/// Lex inputs k in [from, from+n) of the differential sequence one by one and print
/// `k inputhash outcomehash`; with --threads T > 1 the same inputs are then lexed concurrently on
/// T threads and compared with the sequential results. Used under Miri / ThreadSanitizer and by
/// the native build the sanitizer run is compared with.
fn cmd_seq(args: &[String]) -> i32 {
    let Some(prop) = args.first().cloned() else { return 2 };
    let tier = if arg(args, "--tier") == Some("thorough") { Tier::Thorough } else { Tier::Quick };
    let seed: u64 = arg(args, "--seed").and_then(|s| s.parse().ok()).unwrap_or(1);
    let from: usize = arg(args, "--from").and_then(|s| s.parse().ok()).unwrap_or(0);
    let n: usize = arg(args, "--n").and_then(|s| s.parse().ok()).unwrap_or(100);
    let maxlen: usize = arg(args, "--maxlen").and_then(|s| s.parse().ok()).unwrap_or(1500);
    let threads: usize = arg(args, "--threads").and_then(|s| s.parse().ok()).unwrap_or(1);
    run::install_panic_hook();
    // no corpus files under Miri isolation: the sequence must not depend on them
    let corpus = Corpus { small: FIXED_SEEDS.iter().map(|s| (*s).to_string()).collect(), large: vec![] };
    let mut inputs = Vec::new();
    for k in from..from + n {
        let s = diffprops::diff_input(&prop, seed, k, tier, &corpus);
        if s.len() <= maxlen {
            inputs.push((k, s));
        }
    }
    if !args.iter().any(|a| a == "--no-fixed") {
        for s in FIXED_SEEDS {
            inputs.push((usize::MAX, (*s).to_string()));
        }
    }
    let mut base = Vec::new();
    for (k, s) in &inputs {
        let ob = diffprops::outcome_bytes(&prop, s, None);
        let h = view::hash128(&ob);
        let class = if ob.starts_with(b"PANIC") || ob.starts_with(b"BUDGET") { String::from_utf8_lossy(&ob).chars().take(100).collect() } else { "ok".to_string() };
        println!("{k} {:032x} {h:032x} {class}", view::hash128(s.as_bytes()));
        base.push(h);
    }
    if threads > 1 {
        let inputs = std::sync::Arc::new(inputs);
        let base = std::sync::Arc::new(base);
        let mut hs = Vec::new();
        for t in 0..threads {
            let (inputs, base, prop) = (inputs.clone(), base.clone(), prop.clone());
            hs.push(std::thread::spawn(move || {
                let mut bad = 0;
                let len = inputs.len();
                for j in 0..len {
                    let i = (j * (2 * t + 1) + t) % len;
                    let ob = diffprops::outcome_bytes(&prop, &inputs[i].1, None);
                    if view::hash128(&ob) != base[i] {
                        bad += 1;
                    }
                }
                bad
            }));
        }
        let mut bad = 0;
        for h in hs {
            bad += h.join().unwrap_or(1);
        }
        println!("CONCURRENT threads={threads} mismatches={bad}");
    }
    println!("SEQ-DONE {}", inputs_len_marker());
    0
}

fn inputs_len_marker() -> &'static str {
    "ok"
}

/// Inputs that must be part of every sanitizer run: minimal reproducers of past defects and one
/// input per scanning loop / unsafe block.
const FIXED_SEEDS: &[&str] = &[
    "%do %m(a)=1 %to 3;", "%do%m%mm", "%do%do;", "%do%local%to", "%do %m %n;", "\"%eval(1", "%macro m / %;", "%copy%",
    "%m(a%*c;b=1)", "datalines4;\n1 2;;;a", "\"% \"\"a\"", "%str(/%'a)", "%str(%%a)", "'+1'x", "datalines;\n1\n;\n* c;",
    "18446744073709551616f8. x", "data a; set b; run;", "%let a=%eval(1+2);", "%macro m(a,b=1); * c; %mend;", "x = 'it''s' \"a\"\"b\"x;",
    "%if &a eq 1 %then %do; %put x; %end; %else %do i=1 %to 3; %end;", "%sysfunc(f(1.5e3, a), best12.)", "&&a&b..c &&&x", "$char10. $é5.2 1e5 0ffx 12ab",
    "%m /*c*/ (a=1, b %n(2) , 'x')", "é日😀 \u{feff} \u{a0}\n/* ü */ %* 'q;' ;", "cards4;\na;b\n;;;;", "%nrstr(%%&a%(%))", "AbCdEfGhIjKlMnOpQrStUvWxYz0123456789_ x", "%SYSMACDELETEE x; %sysmstoreclear;",
];

fn main() {
    let args: Vec<String> = std::env::args().skip(1).collect();
    let code = match args.first().map(String::as_str) {
        Some("run") => cmd_run(&args[1..]),
        Some("replay") => cmd_replay(&args[1..]),
        Some("block") => cmd_block(&args[1..]),
        Some("lexfile") => cmd_lexfile(&args[1..]),
        Some("family") => cmd_family(&args[1..]),
        Some("gen") => cmd_gen(&args[1..]),
        Some("seq") => cmd_seq(&args[1..]),
        Some("selfcheck") => match oracle::shapes::self_check() {
            Ok(()) => {
                println!("ok");
                0
            }
            Err(e) => {
                println!("{e}");
                1
            }
        },
        _ => {
            eprintln!("usage: slv run|replay|block|lexfile|family|gen|selfcheck …");
            2
        }
    };
    std::process::exit(code);
}
