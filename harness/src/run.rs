//! Executing the lexer under observation: hooks armed, panics caught and classified.

use sas_lexer::{lex_program, LexResult};
use std::cell::RefCell;
use std::panic::{catch_unwind, AssertUnwindSafe};
use std::sync::Once;

#[cfg(feature = "hooks")]
pub use sas_lexer::verif::{Budget, BudgetExceeded, EndOfInput, Report};

#[cfg(not(feature = "hooks"))]
mod nohooks {
    //! Stand-ins so that the harness also builds against a lexer without the `verif` feature
    //! (the `rel-plain` build used by C19 to show the hooks are pure observers).
    use std::collections::HashSet;
    #[derive(Debug, Clone, Copy, Default)]
    pub struct Budget {
        pub main_iters: u64,
        pub cursor_steps: u64,
        pub tokens: u64,
        pub errors: u64,
        pub lines: u64,
    }
    #[derive(Debug, Clone)]
    pub struct BudgetExceeded {
        pub counter: &'static str,
        pub value: u64,
        pub mode: String,
    }
    #[derive(Debug, Clone, PartialEq, Eq)]
    pub struct EndOfInput {
        pub modes: Vec<String>,
        pub macro_nesting_level: u32,
        pub pending_stat_stack: Vec<bool>,
        pub checkpoint_live: bool,
        pub last_token_type: Option<sas_lexer::TokenType>,
    }
    impl EndOfInput {
        pub fn is_initial(&self) -> bool {
            false
        }
    }
    #[derive(Debug, Clone, Default)]
    pub struct Report {
        pub armed: bool,
        pub budget: Budget,
        pub main_iters: u64,
        pub cursor_steps: u64,
        pub tokens: u64,
        pub lines: u64,
        pub errors: u64,
        pub max_mode_depth: usize,
        pub state_keys: HashSet<u64>,
        pub modes_seen: HashSet<u16>,
        pub checkpoints: u64,
        pub clears_live: u64,
        pub clears_idle: u64,
        pub rollbacks: u64,
        pub rollbacks_without_checkpoint: u64,
        pub errors_under_checkpoint: u64,
        pub rollbacks_after_error: u64,
        pub tokens_rolled_back: u64,
        pub decisions: String,
        pub end_of_input: Option<EndOfInput>,
    }
}
#[cfg(not(feature = "hooks"))]
pub use nohooks::*;

pub const HOOKS: bool = cfg!(feature = "hooks");
pub const MACRO_SEP: bool = cfg!(feature = "ms");
pub const DEBUG_BUILD: bool = cfg!(debug_assertions);

#[derive(Debug, Clone)]
pub struct PanicInfo {
    pub message: String,
    pub location: String,
    /// first frames inside the lexer crate, innermost first
    pub frames: Vec<String>,
}

impl PanicInfo {
    pub fn signature(&self) -> String {
        // drop quoted pieces of the message (they usually contain the input text)
        let mut clean = String::new();
        let mut in_tick = false;
        for c in self.message.chars() {
            if c == '`' {
                in_tick = !in_tick;
                continue;
            }
            if !in_tick {
                clean.push(c);
            }
        }
        let clean = match clean.find(" of ") {
            Some(p) if clean.contains("char boundary") => clean[..p].to_string(),
            _ => clean,
        };
        let msg: String = strip_numbers(&clean);
        let f0 = self.frames.first().cloned().unwrap_or_else(|| {
            // no symbolised frame: fall back to the source file (without the line)
            self.location
                .rsplit('/')
                .next()
                .unwrap_or("")
                .split(':')
                .next()
                .unwrap_or("")
                .to_string()
        });
        let f1 = self.frames.get(1).cloned().unwrap_or_default();
        format!("panic|{f0}|{f1}|{msg}")
    }
}

pub fn strip_numbers(s: &str) -> String {
    let mut o = String::new();
    let mut in_num = false;
    let mut prev_ws = false;
    for c in s.chars() {
        if c.is_whitespace() {
            if !prev_ws {
                o.push(' ');
            }
            prev_ws = true;
            in_num = false;
            continue;
        }
        prev_ws = false;
        if c.is_ascii_digit() {
            if !in_num {
                o.push('#');
            }
            in_num = true;
        } else {
            in_num = false;
            o.push(c);
        }
    }
    if o.len() > 160 {
        let mut cut = 160;
        while !o.is_char_boundary(cut) {
            cut -= 1;
        }
        o.truncate(cut);
    }
    o
}

pub enum Outcome {
    Ok(LexResult),
    Panic(PanicInfo),
    Budget(BudgetExceeded),
    /// `lex_program` returned `Err` (only `FileTooLarge` exists)
    Refused(String),
}

pub struct Exec {
    pub outcome: Outcome,
    pub report: Report,
    /// native stack the call used below the caller's frame, as far as the hooks saw it (0 = no
    /// hook ran / hooks not compiled in)
    pub stack_used: usize,
}

impl Exec {
    pub fn result(&self) -> Option<&LexResult> {
        match &self.outcome {
            Outcome::Ok(r) => Some(r),
            _ => None,
        }
    }
}

thread_local! {
    static LAST_PANIC: RefCell<Option<PanicInfo>> = const { RefCell::new(None) };
    static QUIET: RefCell<bool> = const { RefCell::new(false) };
}

static HOOK: Once = Once::new();

fn short_fn(sym: &str) -> Option<String> {
    // keep only frames of the lexer crate, drop the hook module, closures and hashes
    let idx = sym.find("sas_lexer::")?;
    let s = &sym[idx..];
    if s.contains("::verif::") {
        return None;
    }
    let mut s = s.to_string();
    if let Some(h) = s.rfind("::h") {
        if s[h + 3..].chars().all(|c| c.is_ascii_hexdigit()) && s.len() - h == 19 {
            s.truncate(h);
        }
    }
    let s = s.replace("::{{closure}}", "").replace("sas_lexer::lexer::", "");
    let s = s.replace("sas_lexer::", "");
    // strip generic noise
    let s = s.split('<').next().unwrap_or("").trim_end_matches("::").to_string();
    if s.is_empty() {
        None
    } else {
        Some(s)
    }
}

pub fn install_panic_hook() {
    HOOK.call_once(|| {
        let default = std::panic::take_hook();
        std::panic::set_hook(Box::new(move |info| {
            let quiet = QUIET.with(|q| *q.borrow());
            if !quiet {
                default(info);
                return;
            }
            #[cfg(feature = "hooks")]
            if info.payload().downcast_ref::<BudgetExceeded>().is_some() {
                return;
            }
            let message = if let Some(s) = info.payload().downcast_ref::<&str>() {
                (*s).to_string()
            } else if let Some(s) = info.payload().downcast_ref::<String>() {
                s.clone()
            } else {
                "<non-string panic payload>".to_string()
            };
            let location = info
                .location()
                .map(|l| format!("{}:{}", l.file(), l.line()))
                .unwrap_or_default();
            let mut frames = Vec::new();
            if !cfg!(miri) {
                let bt = std::backtrace::Backtrace::force_capture().to_string();
                for line in bt.lines() {
                    let t = line.trim_start();
                    // frame lines look like "12: path::to::fn"
                    if let Some((n, rest)) = t.split_once(": ") {
                        if n.chars().all(|c| c.is_ascii_digit()) {
                            if let Some(f) = short_fn(rest) {
                                if frames.last() != Some(&f) {
                                    frames.push(f);
                                }
                                if frames.len() >= 3 {
                                    break;
                                }
                            }
                        }
                    }
                }
            }
            LAST_PANIC.with(|p| {
                *p.borrow_mut() = Some(PanicInfo {
                    message,
                    location,
                    frames,
                });
            });
        }));
    });
}

/// Budgets linear in the source length. The constants are ≥ 8x the largest ratio observed
/// on the unchanged tree over the thorough workloads (see DESIGN §6 C01 and the evidence
/// of C01, which reports the observed maxima on every run).
pub fn budget_for(len: usize) -> Budget {
    let n = len as u64;
    Budget {
        main_iters: 16 * n + 64,
        cursor_steps: 256 * n + 4096,
        tokens: 4 * n + 64,
        errors: 4 * n + 64,
        // add_line calls are cumulative: lines dropped by a rollback are added again on re-lexing
        lines: 4 * n + 64,
    }
}

/// Run the lexer on `src` with the hooks armed and panics caught.
pub fn exec(src: &str) -> Exec {
    exec_with(src, budget_for(src.len()))
}

pub fn exec_with(src: &str, budget: Budget) -> Exec {
    install_panic_hook();
    QUIET.with(|q| *q.borrow_mut() = true);
    LAST_PANIC.with(|p| *p.borrow_mut() = None);
    #[cfg(feature = "hooks")]
    sas_lexer::verif::arm(budget);
    #[cfg(not(feature = "hooks"))]
    let _ = budget;
    let owned = src;
    let stack_probe = 0u8;
    let stack_base = std::ptr::addr_of!(stack_probe) as usize;
    let r = catch_unwind(AssertUnwindSafe(|| lex_program(&owned)));
    #[cfg(feature = "hooks")]
    let report = sas_lexer::verif::take();
    #[cfg(not(feature = "hooks"))]
    let report = Report::default();
    #[cfg(feature = "hooks")]
    let stack_used = if report.lowest_stack_addr == 0 { 0 } else { stack_base.saturating_sub(report.lowest_stack_addr) };
    #[cfg(not(feature = "hooks"))]
    let stack_used = { let _ = stack_base; 0usize };
    QUIET.with(|q| *q.borrow_mut() = false);
    let outcome = match r {
        Ok(Ok(res)) => Outcome::Ok(res),
        Ok(Err(e)) => Outcome::Refused(format!("{e:?}")),
        Err(payload) => {
            #[cfg(feature = "hooks")]
            {
                match payload.downcast::<BudgetExceeded>() {
                    Ok(b) => Outcome::Budget(*b),
                    Err(_) => Outcome::Panic(LAST_PANIC.with(|p| p.borrow_mut().take()).unwrap_or(
                        PanicInfo {
                            message: "<unknown panic>".into(),
                            location: String::new(),
                            frames: vec![],
                        },
                    )),
                }
            }
            #[cfg(not(feature = "hooks"))]
            {
                let _ = payload;
                Outcome::Panic(LAST_PANIC.with(|p| p.borrow_mut().take()).unwrap_or(PanicInfo {
                    message: "<unknown panic>".into(),
                    location: String::new(),
                    frames: vec![],
                }))
            }
        }
    };
    Exec { outcome, report, stack_used }
}

/// Size of the stack region painted below the caller by `exec_painted`.
pub const PAINT_BYTES: usize = 2 << 20;

/// Like `exec`, and measures the native stack the call used by *painting*: the region of this
/// thread's stack below the current frame is filled with a pattern before the call and scanned
/// afterwards for the lowest byte that changed. Unlike the hook-based measure this also sees
/// frames of helper functions that never reach a hook (look-ahead on a cloned iterator, parsers
/// of dependencies). Only on harness worker threads (64 MiB stacks, fully mapped); not under Miri.
#[cfg(not(miri))]
#[inline(never)]
pub fn exec_painted(src: &str) -> Exec {
    const SKIP: usize = 4096; // room for this function's own frame and the call sequence
    let probe = 0u8;
    let here = std::ptr::addr_of!(probe) as usize;
    let top = (here - SKIP) & !7usize;
    let bottom = top - PAINT_BYTES;
    // paint
    let mut a = bottom;
    while a < top {
        // SAFETY (in practice): the addresses lie in the mapped, currently unused part of this
        // thread's own stack, below every live frame
        unsafe { std::ptr::write_volatile(a as *mut u64, 0xA5A5_5A5A_A5A5_5A5Au64) };
        a += 8;
    }
    let mut ex = exec_inner_for_paint(src);
    // scan from the low end for the first word that changed
    let mut a = bottom;
    while a < top {
        if unsafe { std::ptr::read_volatile(a as *const u64) } != 0xA5A5_5A5A_A5A5_5A5Au64 {
            break;
        }
        a += 8;
    }
    let painted_used = if a >= top { 0 } else { here - a };
    ex.stack_used = ex.stack_used.max(painted_used);
    ex
}

#[cfg(not(miri))]
#[inline(never)]
fn exec_inner_for_paint(src: &str) -> Exec {
    exec(src)
}

#[cfg(miri)]
pub fn exec_painted(src: &str) -> Exec {
    exec(src)
}

/// Plain call without hooks armed (hooks stay disarmed => pure pass-through), panics caught.
pub fn exec_plain(src: &str) -> Result<LexResult, String> {
    install_panic_hook();
    QUIET.with(|q| *q.borrow_mut() = true);
    LAST_PANIC.with(|p| *p.borrow_mut() = None);
    let r = catch_unwind(AssertUnwindSafe(|| lex_program(&src)));
    QUIET.with(|q| *q.borrow_mut() = false);
    match r {
        Ok(Ok(res)) => Ok(res),
        Ok(Err(e)) => Err(format!("refused:{e:?}")),
        Err(_) => Err(LAST_PANIC
            .with(|p| p.borrow_mut().take())
            .map_or("panic".to_string(), |p| p.signature())),
    }
}
