//! Structural invariants of a returned buffer: C02 (tiling), C03 (char offsets), C04 (lines and
//! columns), C05 (bulk view == accessors), C09 (error anchoring), C10 (balanced groups).

use super::{Finding, Findings};
use crate::view::View;
use sas_lexer::error::ErrorKind;
use sas_lexer::{Payload, TokenChannel, TokenType};
use std::panic::{catch_unwind, AssertUnwindSafe};

const BOM: char = '\u{feff}';

pub fn bom_len(src: &str) -> usize {
    if src.starts_with(BOM) {
        3
    } else {
        0
    }
}

/// Position tables computed independently from the text.
pub struct PosTables {
    /// chars before byte b (u32::MAX when b is not a char boundary)
    pub chars_before: Vec<u32>,
    /// 1-based line of byte position b
    pub line_at: Vec<u32>,
    /// char index where the line containing b starts (BOM excluded on line 1)
    pub line_start_char: Vec<u32>,
    pub lf_count: u32,
}

impl PosTables {
    pub fn new(src: &str) -> PosTables {
        let n = src.len();
        let mut chars_before = vec![u32::MAX; n + 1];
        let mut line_at = vec![0u32; n + 1];
        let mut line_start_char = vec![0u32; n + 1];
        let mut line = 1u32;
        let mut ls = 0u32;
        let mut ci = 0u32;
        let mut lf = 0u32;
        let bl = bom_len(src);
        for (b, c) in src.char_indices() {
            if b == bl && bl > 0 {
                // first line starts after the BOM
                ls = ci;
            }
            chars_before[b] = ci;
            for k in b..b + c.len_utf8() {
                line_at[k] = line;
                line_start_char[k] = ls;
            }
            ci += 1;
            if c == '\n' {
                line += 1;
                lf += 1;
                ls = ci;
            }
        }
        if n == bl && bl > 0 {
            ls = ci;
        }
        chars_before[n] = ci;
        line_at[n] = line;
        line_start_char[n] = ls;
        // positions inside the BOM belong to no line arithmetic; map them to line 1 / start=1
        if bl > 0 {
            for k in 0..bl.min(n + 1) {
                line_start_char[k] = 1;
            }
        }
        PosTables {
            chars_before,
            line_at,
            line_start_char,
            lf_count: lf,
        }
    }
    pub fn col(&self, b: usize) -> Option<u32> {
        let c = *self.chars_before.get(b)?;
        if c == u32::MAX {
            return None;
        }
        c.checked_sub(self.line_start_char[b])
    }
}

fn tyname(t: TokenType) -> String {
    format!("{t:?}")
}

// ---------------------------------------------------------------------------------------------
// C02

pub fn check_c02(v: &View) -> Findings {
    let mut f = Findings::new();
    let src = v.src;
    let n = src.len();
    let bl = bom_len(src);
    let toks = &v.toks;
    if toks.is_empty() {
        f.push(Finding::new("C02.eof", "no-tokens", "empty token vector".into()));
        return f;
    }
    if toks[0].b0 != bl {
        f.push(Finding::new(
            "C02.first",
            &tyname(toks[0].ty),
            format!("first token starts at {} expected {}", toks[0].b0, bl),
        ));
    }
    let mut eofs = 0;
    for (i, t) in toks.iter().enumerate() {
        if t.ty == TokenType::EOF {
            eofs += 1;
            if i + 1 != toks.len() {
                f.push(Finding::new("C02.eof", "not-last", format!("EOF at index {i}")));
            }
        }
        if i > 0 && t.b0 < toks[i - 1].b0 {
            f.push(Finding::new(
                "C02.monotonic",
                &format!("{}<-{}", tyname(t.ty), tyname(toks[i - 1].ty)),
                format!("token {i} starts at {} before previous {}", t.b0, toks[i - 1].b0),
            ));
        }
        if t.b0 > n {
            f.push(Finding::new(
                "C02.bounds",
                &tyname(t.ty),
                format!("token {i} starts at {} past len {n}", t.b0),
            ));
        } else if !src.is_char_boundary(t.b0) {
            f.push(Finding::new(
                "C02.boundary",
                &tyname(t.ty),
                format!("token {i} starts inside a character at {}", t.b0),
            ));
        }
        if t.idx as usize != i {
            f.push(Finding::new("C02.index", "", format!("token {i} has idx {}", t.idx)));
        }
    }
    let last = toks[toks.len() - 1];
    if eofs != 1 || last.ty != TokenType::EOF {
        f.push(Finding::new(
            "C02.eof",
            &format!("count={eofs}|last={}", tyname(last.ty)),
            format!("EOF count {eofs}, last token {:?}", last.ty),
        ));
    }
    if last.ty == TokenType::EOF && last.b0 != n {
        f.push(Finding::new(
            "C02.eof",
            "not-at-len",
            format!("EOF at {} but len {n}", last.b0),
        ));
    }
    // "at the end of the text" in the character view too (the bulk view's start/stop, which
    // callers slice text with, are character offsets)
    if last.ty == TokenType::EOF && last.b0 == n && last.c0 as usize != v.src.chars().count() {
        f.push(Finding::new(
            "C02.eof",
            "char-offset-not-at-end",
            format!("EOF at character offset {} but the text has {} characters", last.c0, v.src.chars().count()),
        ));
    }
    if last.ty == TokenType::EOF && last.ch != TokenChannel::DEFAULT {
        f.push(Finding::new("C02.eof", "channel", "EOF not on default channel".into()));
    }
    if !f.is_empty() {
        return f;
    }
    // accessors total + concatenation
    let buf = &v.res.buffer;
    let r = catch_unwind(AssertUnwindSafe(|| {
        let mut cat = String::with_capacity(n);
        let mut bad: Option<String> = None;
        let mut count = 0usize;
        for idx in buf.iter_tokens() {
            count += 1;
            macro_rules! need {
                ($e:expr, $name:literal) => {
                    match $e {
                        Ok(x) => Some(x),
                        Err(e) => {
                            bad.get_or_insert(format!("{}({}) -> Err({:?})", $name, idx.get(), e));
                            None
                        }
                    }
                };
            }
            let s = need!(buf.get_token_start_byte_offset(idx), "get_token_start_byte_offset");
            let e = need!(buf.get_token_end_byte_offset(idx), "get_token_end_byte_offset");
            need!(buf.get_token_start(idx), "get_token_start");
            need!(buf.get_token_end(idx), "get_token_end");
            need!(buf.get_token_start_line(idx), "get_token_start_line");
            need!(buf.get_token_end_line(idx), "get_token_end_line");
            need!(buf.get_token_start_column(idx), "get_token_start_column");
            need!(buf.get_token_end_column(idx), "get_token_end_column");
            need!(buf.get_token_type(idx), "get_token_type");
            need!(buf.get_token_channel(idx), "get_token_channel");
            need!(buf.get_token_payload(idx), "get_token_payload");
            let raw = need!(buf.get_token_raw_text(idx, &src), "get_token_raw_text");
            let res = need!(buf.get_token_resolved_text(idx, &src), "get_token_resolved_text");
            if let (Some(s), Some(e), Some(raw)) = (s, e, raw) {
                let (s, e) = (s.get() as usize, e.get() as usize);
                match raw {
                    None => {
                        if s != e {
                            bad.get_or_insert(format!(
                                "get_token_raw_text({}) -> None for non-empty range {s}..{e}",
                                idx.get()
                            ));
                        }
                    }
                    Some(t) => {
                        if src.get(s..e) != Some(t) {
                            bad.get_or_insert(format!(
                                "get_token_raw_text({}) differs from source[{s}..{e}]",
                                idx.get()
                            ));
                        }
                        cat.push_str(t);
                    }
                }
            }
            if let Some(None) = res {
                // None is only legitimate for an empty token without payload
                if let (Some(s), Some(e)) = (s, e) {
                    if s != e {
                        bad.get_or_insert(format!(
                            "get_token_resolved_text({}) -> None for non-empty token",
                            idx.get()
                        ));
                    }
                }
            }
        }
        if count != buf.token_count() as usize {
            bad.get_or_insert(format!("iter_tokens yielded {count} != token_count {}", buf.token_count()));
        }
        (cat, bad)
    }));
    match r {
        Err(_) => f.push(Finding::new(
            "C02.accessor",
            "panic",
            "an accessor panicked for an index handed out by iter_tokens".into(),
        )),
        Ok((cat, bad)) => {
            if let Some(b) = bad {
                f.push(Finding::new("C02.accessor", "err", b));
            }
            if cat != src[bl..] {
                f.push(Finding::new(
                    "C02.concat",
                    "",
                    "concatenated raw texts differ from the source".into(),
                ));
            }
        }
    }
    f
}

// ---------------------------------------------------------------------------------------------
// C03

pub fn check_c03(v: &View, pt: &PosTables) -> Findings {
    let mut f = Findings::new();
    let buf = &v.res.buffer;
    let n = v.src.len();
    for (i, t) in v.toks.iter().enumerate() {
        if t.b0 > n {
            continue; // C02's business
        }
        let exp = pt.chars_before[t.b0];
        if exp == u32::MAX {
            continue;
        }
        if t.c0 != exp {
            f.push(Finding::new(
                "C03.token",
                &format!("{}|{}", tyname(t.ty), if t.c0 > exp { "over" } else { "under" }),
                format!("token {i} {:?} at byte {} has char offset {} expected {}", t.ty, t.b0, t.c0, exp),
            ));
            break;
        }
    }
    // accessor-level end offsets
    if f.is_empty() {
        let r = catch_unwind(AssertUnwindSafe(|| {
            for (i, idx) in buf.iter_tokens().enumerate() {
                if let (Ok(e), Ok(eb)) = (buf.get_token_end(idx), buf.get_token_end_byte_offset(idx)) {
                    let eb = eb.get() as usize;
                    if eb <= n && pt.chars_before[eb] != u32::MAX && e.get() != pt.chars_before[eb] {
                        return Some((i, e.get(), pt.chars_before[eb]));
                    }
                }
            }
            None
        }));
        if let Ok(Some((i, got, exp))) = r {
            f.push(Finding::new(
                "C03.end",
                &tyname(v.toks[i].ty),
                format!("token {i} end char offset {got} expected {exp}"),
            ));
        }
    }
    for e in v.errors() {
        let b = e.at_byte_offset() as usize;
        if b > n {
            continue;
        }
        let exp = pt.chars_before[b];
        if exp == u32::MAX {
            continue;
        }
        if e.at_char_offset() != exp {
            f.push(Finding::new(
                "C03.error",
                &format!("{:?}", e.error_kind()),
                format!(
                    "error {:?} at byte {} has char offset {} expected {}",
                    e.error_kind(),
                    b,
                    e.at_char_offset(),
                    exp
                ),
            ));
            break;
        }
    }
    // consequence: slicing by code points equals slicing by bytes (spot-check every token when
    // the source is small, else a sample)
    if f.is_empty() && v.src.len() <= 4096 && !v.src.is_ascii() {
        let chars: Vec<char> = v.src.chars().collect();
        for (i, t) in v.toks.iter().enumerate() {
            if let Some(nx) = v.toks.get(i + 1) {
                let (a, b) = (t.c0 as usize, nx.c0 as usize);
                if a <= b && b <= chars.len() {
                    let by_chars: String = chars[a..b].iter().collect();
                    if by_chars != v.text(i) {
                        f.push(Finding::new(
                            "C03.slice",
                            &tyname(t.ty),
                            format!("token {i}: code-point slice {:?} != byte slice {:?}", by_chars, v.text(i)),
                        ));
                        break;
                    }
                }
            }
        }
    }
    f
}

// ---------------------------------------------------------------------------------------------
// C04

/// Expected (line, column) of the end of a token spanning [b0, b1)
pub fn expected_end(src: &str, pt: &PosTables, b0: usize, b1: usize) -> Option<(u32, u32)> {
    if b0 >= b1 {
        return Some((pt.line_at[b0], pt.col(b0)?));
    }
    // start of the last character
    let mut q = b1 - 1;
    while !src.is_char_boundary(q) {
        q -= 1;
    }
    Some((pt.line_at[q], pt.col(q)? + 1))
}

pub fn check_c04(v: &View, pt: &PosTables) -> Findings {
    let mut f = Findings::new();
    let buf = &v.res.buffer;
    let src = v.src;
    let n = src.len();
    if buf.line_count() != pt.lf_count + 1 {
        f.push(Finding::new(
            "C04.line_count",
            if buf.line_count() > pt.lf_count + 1 { "over" } else { "under" },
            format!("line_count {} expected {}", buf.line_count(), pt.lf_count + 1),
        ));
    }
    let r = catch_unwind(AssertUnwindSafe(|| {
        let mut out = Findings::new();
        for (i, idx) in buf.iter_tokens().enumerate() {
            let t = &v.toks[i];
            if t.b0 > n || t.b1 > n || t.b0 > t.b1 || !src.is_char_boundary(t.b0) || !src.is_char_boundary(t.b1) {
                continue;
            }
            let sl = buf.get_token_start_line(idx).ok();
            let sc = buf.get_token_start_column(idx).ok();
            let el = buf.get_token_end_line(idx).ok();
            let ec = buf.get_token_end_column(idx).ok();
            let exp_sl = pt.line_at[t.b0];
            let exp_sc = pt.col(t.b0);
            if sl != Some(exp_sl) || sc != exp_sc {
                out.push(Finding::new(
                    "C04.start",
                    &format!(
                        "{}|{}",
                        tyname(t.ty),
                        if sl != Some(exp_sl) { "line" } else { "column" }
                    ),
                    format!(
                        "token {i} {:?} at byte {}: start ({:?},{:?}) expected ({},{:?})",
                        t.ty, t.b0, sl, sc, exp_sl, exp_sc
                    ),
                ));
                break;
            }
            if let Some((xl, xc)) = expected_end(src, pt, t.b0, t.b1) {
                if el != Some(xl) || ec != Some(xc) {
                    let cls = if t.b0 == t.b1 {
                        "empty"
                    } else if src[t.b0..t.b1].ends_with('\n') {
                        "ends-in-lf"
                    } else if src[t.b0..t.b1].contains('\n') {
                        "multiline"
                    } else {
                        "single-line"
                    };
                    out.push(Finding::new(
                        "C04.end",
                        &format!("{}|{}|{}", tyname(t.ty), cls, if el != Some(xl) { "line" } else { "column" }),
                        format!(
                            "token {i} {:?} [{}..{}): end ({:?},{:?}) expected ({},{})",
                            t.ty, t.b0, t.b1, el, ec, xl, xc
                        ),
                    ));
                    break;
                }
            }
        }
        out
    }));
    match r {
        Ok(mut o) => f.append(&mut o),
        Err(_) => f.push(Finding::new("C04.accessor", "panic", "line/column accessor panicked".into())),
    }
    for e in v.errors() {
        let b = e.at_byte_offset() as usize;
        if b > n || !src.is_char_boundary(b) {
            continue;
        }
        let (xl, xc) = (pt.line_at[b], pt.col(b));
        if e.on_line() != xl || Some(e.at_column()) != xc {
            f.push(Finding::new(
                "C04.error",
                &format!("{:?}|{}", e.error_kind(), if e.on_line() != xl { "line" } else { "column" }),
                format!(
                    "error {:?} at byte {b}: ({},{}) expected ({},{:?})",
                    e.error_kind(),
                    e.on_line(),
                    e.at_column(),
                    xl,
                    xc
                ),
            ));
            break;
        }
    }
    f
}

// ---------------------------------------------------------------------------------------------
// C05

fn payload_eq(a: Payload, b: Payload) -> bool {
    match (a, b) {
        (Payload::None, Payload::None) => true,
        (Payload::Integer(x), Payload::Integer(y)) => x == y,
        (Payload::Float(x), Payload::Float(y)) => x.to_bits() == y.to_bits(),
        (Payload::StringLiteral(a0, a1), Payload::StringLiteral(b0, b1)) => a0 == b0 && a1 == b1,
        _ => false,
    }
}

pub fn check_c05(v: &View) -> Findings {
    let mut f = Findings::new();
    let buf = &v.res.buffer;
    let r = catch_unwind(AssertUnwindSafe(|| buf.into_resolved_token_vec()));
    let vec = match r {
        Ok(x) => x,
        Err(_) => {
            f.push(Finding::new("C05.bulk", "panic", "into_resolved_token_vec panicked".into()));
            return f;
        }
    };
    if vec.len() != buf.token_count() as usize {
        f.push(Finding::new(
            "C05.count",
            "",
            format!("bulk view has {} entries, token_count {}", vec.len(), buf.token_count()),
        ));
        return f;
    }
    let r = catch_unwind(AssertUnwindSafe(|| {
        for (i, idx) in buf.iter_tokens().enumerate() {
            let e = &vec[i];
            let t = &v.toks[i];
            let cls = |field: &str| {
                let shape = if t.b0 == t.b1 {
                    "empty"
                } else if v.text(i).ends_with('\n') {
                    "ends-in-lf"
                } else if v.text(i).contains('\n') {
                    "multiline"
                } else {
                    "single-line"
                };
                format!("{field}|{}|{shape}", tyname(t.ty))
            };
            macro_rules! cmp {
                ($field:literal, $bulk:expr, $acc:expr) => {
                    match $acc {
                        Ok(a) => {
                            if $bulk != a {
                                return Some(Finding::new(
                                    "C05.field",
                                    &cls($field),
                                    format!("token {i} {:?}: bulk {}={:?} accessor {:?}", t.ty, $field, $bulk, a),
                                ));
                            }
                        }
                        Err(err) => {
                            return Some(Finding::new(
                                "C05.accessor",
                                $field,
                                format!("token {i}: accessor for {} failed: {:?}", $field, err),
                            ))
                        }
                    }
                };
            }
            cmp!("channel", e.channel, buf.get_token_channel(idx));
            cmp!("token_type", e.token_type, buf.get_token_type(idx));
            if e.token_index != idx.get() {
                return Some(Finding::new("C05.field", "token_index", format!("entry {i} has token_index {}", e.token_index)));
            }
            cmp!("start", e.start, buf.get_token_start(idx).map(|x| x.get()));
            cmp!("stop", e.stop, buf.get_token_end(idx).map(|x| x.get()));
            cmp!("line", e.line, buf.get_token_start_line(idx));
            cmp!("column", e.column, buf.get_token_start_column(idx));
            cmp!("end_line", e.end_line, buf.get_token_end_line(idx));
            cmp!("end_column", e.end_column, buf.get_token_end_column(idx));
            match buf.get_token_payload(idx) {
                Ok(p) => {
                    if !payload_eq(p, e.payload) {
                        return Some(Finding::new(
                            "C05.field",
                            &cls("payload"),
                            format!("token {i}: bulk payload {:?} accessor {:?}", e.payload, p),
                        ));
                    }
                }
                Err(err) => return Some(Finding::new("C05.accessor", "payload", format!("{err:?}"))),
            }
        }
        None
    }));
    match r {
        Ok(Some(x)) => f.push(x),
        Ok(None) => {}
        Err(_) => f.push(Finding::new("C05.accessor", "panic", "accessor panicked".into())),
    }
    f
}

// ---------------------------------------------------------------------------------------------
// C09

fn expected_symbol(kind: ErrorKind) -> Option<TokenType> {
    Some(match kind {
        ErrorKind::MissingExpectedRParen => TokenType::RPAREN,
        ErrorKind::MissingExpectedAssign => TokenType::ASSIGN,
        ErrorKind::MissingExpectedLParen => TokenType::LPAREN,
        ErrorKind::MissingExpectedComma => TokenType::COMMA,
        ErrorKind::MissingExpectedFSlash => TokenType::FSLASH,
        ErrorKind::MissingExpectedSemiOrEOF => TokenType::SEMI,
        _ => return None,
    })
}

fn missing_kind(t: TokenType) -> Option<ErrorKind> {
    Some(match t {
        TokenType::RPAREN => ErrorKind::MissingExpectedRParen,
        TokenType::ASSIGN => ErrorKind::MissingExpectedAssign,
        TokenType::LPAREN => ErrorKind::MissingExpectedLParen,
        TokenType::COMMA => ErrorKind::MissingExpectedComma,
        TokenType::FSLASH => ErrorKind::MissingExpectedFSlash,
        TokenType::SEMI => ErrorKind::MissingExpectedSemiOrEOF,
        _ => return None,
    })
}

pub fn check_c09(v: &View) -> Findings {
    let mut f = Findings::new();
    let n = v.src.len();
    let errs = v.errors();
    let ntok = v.toks.len();
    let mut prev = 0u32;
    for (k, e) in errs.iter().enumerate() {
        let o = e.at_byte_offset() as usize;
        if o > n || !v.src.is_char_boundary(o) {
            f.push(Finding::new(
                "C09.offset",
                &format!("{:?}", e.error_kind()),
                format!("error {k} {:?} at byte {o} outside the source / inside a character", e.error_kind()),
            ));
            continue;
        }
        if let Some(t) = e.last_token() {
            let ti = t.get() as usize;
            if ti >= ntok {
                f.push(Finding::new(
                    "C09.last_token",
                    &format!("{:?}|dangling", e.error_kind()),
                    format!("error {k} {:?} names token {ti} but the buffer has {ntok} tokens", e.error_kind()),
                ));
            } else if v.toks[ti].b0 > o {
                f.push(Finding::new(
                    "C09.last_token",
                    &format!("{:?}|after-error|{:?}", e.error_kind(), v.toks[ti].ty),
                    format!(
                        "error {k} {:?} at {o} names token {ti} {:?} which starts later at {}",
                        e.error_kind(),
                        v.toks[ti].ty,
                        v.toks[ti].b0
                    ),
                ));
            }
        }
        if k > 0 && e.at_byte_offset() < prev {
            f.push(Finding::new(
                "C09.order",
                &format!("{:?}<-{:?}", e.error_kind(), errs[k - 1].error_kind()),
                format!(
                    "error {k} {:?} at {} listed after error at {}",
                    e.error_kind(),
                    e.at_byte_offset(),
                    prev
                ),
            ));
        }
        prev = e.at_byte_offset();
    }
    // missing-expected errors <-> zero-width recovery tokens (linear: hash maps keyed by
    // (kind/type, offset))
    use std::collections::HashMap;
    let mut err_at: HashMap<(u16, usize), usize> = HashMap::new();
    for e in errs {
        if expected_symbol(e.error_kind()).is_some() {
            *err_at.entry((e.error_kind() as u16, e.at_byte_offset() as usize)).or_insert(0) += 1;
        }
    }
    let mut tok_at: HashMap<(u16, usize), usize> = HashMap::new();
    for t in &v.toks {
        if t.b0 == t.b1 && missing_kind(t.ty).is_some() {
            *tok_at.entry((t.ty as u16, t.b0)).or_insert(0) += 1;
        }
    }
    for e in errs {
        let Some(tt) = expected_symbol(e.error_kind()) else { continue };
        let o = e.at_byte_offset() as usize;
        let n_err = err_at.get(&(e.error_kind() as u16, o)).copied().unwrap_or(0);
        let n_tok = tok_at.get(&(tt as u16, o)).copied().unwrap_or(0);
        if n_err > n_tok {
            f.push(Finding::new(
                "C09.recovery",
                &format!("{:?}|no-token", e.error_kind()),
                format!(
                    "{n_err} {:?} error(s) at {o} but {n_tok} zero-width {:?} token(s) there",
                    e.error_kind(),
                    tt
                ),
            ));
            break;
        }
    }
    for (i, t) in v.toks.iter().enumerate() {
        if t.b0 != t.b1 {
            continue;
        }
        let Some(kind) = missing_kind(t.ty) else { continue };
        if t.ty == TokenType::SEMI && t.b0 == n {
            continue; // end-of-input semicolon
        }
        if !err_at.contains_key(&(kind as u16, t.b0)) {
            f.push(Finding::new(
                "C09.recovery",
                &format!("{:?}|no-error", t.ty),
                format!("zero-width {:?} token {i} at {} without a {:?} error there", t.ty, t.b0, kind),
            ));
            break;
        }
    }
    f
}

// ---------------------------------------------------------------------------------------------
// C10

pub fn is_str_expr_end(t: TokenType) -> bool {
    matches!(
        t,
        TokenType::StringExprEnd
            | TokenType::BitTestingLiteralExprEnd
            | TokenType::DateLiteralExprEnd
            | TokenType::DateTimeLiteralExprEnd
            | TokenType::NameLiteralExprEnd
            | TokenType::TimeLiteralExprEnd
            | TokenType::HexStringLiteralExprEnd
    )
}

/// Built-in macro function keywords that take arguments
pub fn is_builtin_with_args(t: TokenType) -> bool {
    let x = t as u16;
    x >= TokenType::KwmCmpres as u16 && x <= TokenType::KwmNrStr as u16 && t != TokenType::KwmSysmexecdepth
}

pub fn check_c10(v: &View) -> Findings {
    let mut f = Findings::new();
    let toks = &v.toks;
    let mut depth = 0i64;
    for (i, t) in toks.iter().enumerate() {
        match t.ty {
            TokenType::StringExprStart => depth += 1,
            TokenType::StringExprText => {
                if depth <= 0 {
                    f.push(Finding::new(
                        "C10.strexpr",
                        "text-outside",
                        format!("StringExprText token {i} outside a string expression"),
                    ));
                }
            }
            x if is_str_expr_end(x) => {
                // "missing closers are supplied as virtual tokens and reported": a closer that is
                // not the closing quote itself stands for a string cut off by end of input and
                // carries its own UnterminatedStringLiteral diagnostic
                if x == TokenType::StringExprEnd && &v.src[t.b0..t.b1] != "\"" {
                    let named = v.errors_naming(i).any(|e| e.error_kind() == ErrorKind::UnterminatedStringLiteral);
                    if !named {
                        f.push(Finding::new(
                            "C10.reported",
                            "virtual-string-closer-without-error",
                            format!("StringExprEnd token {i} ({:?}) is not a closing quote and no UnterminatedStringLiteral error names it", &v.src[t.b0..t.b1]),
                        ));
                    }
                }
                depth -= 1;
                if depth < 0 {
                    f.push(Finding::new(
                        "C10.strexpr",
                        &format!("end-without-start|{:?}", x),
                        format!("{x:?} token {i} without a matching StringExprStart"),
                    ));
                    depth = 0;
                }
            }
            TokenType::DatalinesStart => {
                let ok = toks.get(i + 1).map(|a| a.ty) == Some(TokenType::DatalinesData)
                    && toks.get(i + 2).map(|a| a.ty) == Some(TokenType::SEMI);
                if !ok {
                    f.push(Finding::new(
                        "C10.datalines",
                        &format!(
                            "{:?},{:?}",
                            toks.get(i + 1).map(|a| a.ty),
                            toks.get(i + 2).map(|a| a.ty)
                        ),
                        format!("DatalinesStart token {i} not followed by DatalinesData, SEMI"),
                    ));
                }
            }
            TokenType::DatalinesData if toks.get(i + 1).is_some_and(|a| a.ty == TokenType::SEMI && a.b0 == a.b1) => {
                // a virtual terminator is reported
                let at = toks[i + 1].b0;
                if !v.errors().iter().any(|e| e.error_kind() == ErrorKind::UnterminatedDatalines && e.at_byte_offset() as usize == at) {
                    f.push(Finding::new(
                        "C10.reported",
                        "virtual-datalines-terminator-without-error",
                        format!("zero-width terminator after DatalinesData token {i} and no UnterminatedDatalines error at byte {at}"),
                    ));
                }
                if i == 0 || toks[i - 1].ty != TokenType::DatalinesStart {
                    f.push(Finding::new(
                        "C10.datalines",
                        "data-without-start",
                        format!("DatalinesData token {i} not preceded by DatalinesStart"),
                    ));
                }
            }
            TokenType::DatalinesData => {
                if i == 0 || toks[i - 1].ty != TokenType::DatalinesStart {
                    f.push(Finding::new(
                        "C10.datalines",
                        "data-without-start",
                        format!("DatalinesData token {i} not preceded by DatalinesStart"),
                    ));
                }
            }
            TokenType::MacroLabel => {
                let mut j = i + 1;
                while j < toks.len()
                    && (toks[j].ty == TokenType::WS || toks[j].ty == TokenType::CStyleComment)
                {
                    j += 1;
                }
                let ok = toks
                    .get(j)
                    .is_some_and(|a| a.ty == TokenType::COLON && a.ch == TokenChannel::HIDDEN);
                if !ok {
                    f.push(Finding::new(
                        "C10.label",
                        &format!("{:?}", toks.get(j).map(|a| (a.ty, a.ch))),
                        format!("MacroLabel token {i} not followed by a hidden COLON"),
                    ));
                }
            }
            x if is_builtin_with_args(x) => {
                let mut j = i + 1;
                while j < toks.len()
                    && (toks[j].ty == TokenType::WS || toks[j].ty == TokenType::CStyleComment)
                {
                    j += 1;
                }
                let ok = toks
                    .get(j)
                    .is_some_and(|a| a.ty == TokenType::LPAREN && a.ch == t.ch);
                if !ok {
                    f.push(Finding::new(
                        "C10.builtin",
                        &format!("{:?}|next={:?}", x, toks.get(j).map(|a| a.ty)),
                        format!(
                            "built-in {x:?} token {i} not followed by LPAREN on its channel (next: {:?})",
                            toks.get(j).map(|a| (a.ty, a.ch))
                        ),
                    ));
                }
            }
            _ => {}
        }
        if f.len() > 4 {
            break;
        }
    }
    if depth > 0 {
        f.push(Finding::new(
            "C10.strexpr",
            "unclosed",
            format!("{depth} StringExprStart token(s) without a matching end"),
        ));
    }
    f
}
