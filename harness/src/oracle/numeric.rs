//! C08: numeric literal payloads equal the value written in the source.

use super::{Finding, Findings};
use crate::view::View;
use sas_lexer::error::ErrorKind;
use sas_lexer::{Payload, TokenType};

#[derive(Debug, Clone, Copy, PartialEq)]
pub enum NumVal {
    Int(u64),
    Float(f64),
}

/// Independent reader of a numeric literal spelling. Returns (type, value) or None when the
/// spelling is not a complete, valid literal.
pub fn read_numeric(text: &str) -> Option<(TokenType, NumVal)> {
    let b = text.as_bytes();
    if b.is_empty() {
        return None;
    }
    let all_digits = b.iter().all(u8::is_ascii_digit);
    if all_digits {
        // exact integer when it fits u64, otherwise the correctly rounded double
        let mut v: u128 = 0;
        let mut over = false;
        for &d in b {
            v = v * 10 + u128::from(d - b'0');
            if v > u128::from(u64::MAX) {
                over = true;
                break;
            }
        }
        return if over {
            Some((TokenType::FloatLiteral, NumVal::Float(text.parse::<f64>().ok()?)))
        } else {
            Some((TokenType::IntegerLiteral, NumVal::Int(v as u64)))
        };
    }
    let last = b[b.len() - 1];
    if (last == b'x' || last == b'X') && b[0].is_ascii_digit() {
        let digits = &b[..b.len() - 1];
        if digits.iter().all(u8::is_ascii_hexdigit) {
            let mut v: u128 = 0;
            for &d in digits {
                let x = match d {
                    b'0'..=b'9' => d - b'0',
                    b'a'..=b'f' => d - b'a' + 10,
                    _ => d - b'A' + 10,
                };
                v = v * 16 + u128::from(x);
                if v > u128::from(u64::MAX) {
                    return None; // overflow: must carry an error
                }
            }
            return Some((TokenType::IntegerLiteral, NumVal::Int(v as u64)));
        }
        return None;
    }
    // decimal / exponent notation: D+ (. D*)? | . D+   followed by optional [eE][+-]?D+
    let (mant, exp) = match text.find(['e', 'E']) {
        Some(p) => (&text[..p], Some(&text[p + 1..])),
        None => (text, None),
    };
    let mant_ok = match mant.split_once('.') {
        None => !mant.is_empty() && mant.bytes().all(|c| c.is_ascii_digit()),
        Some((a, c)) => {
            a.bytes().all(|x| x.is_ascii_digit())
                && c.bytes().all(|x| x.is_ascii_digit())
                && !(a.is_empty() && c.is_empty())
        }
    };
    if !mant_ok {
        return None;
    }
    if let Some(e) = exp {
        let e = e.strip_prefix(['+', '-']).unwrap_or(e);
        if e.is_empty() || !e.bytes().all(|c| c.is_ascii_digit()) {
            return None;
        }
    }
    let val = text.parse::<f64>().ok()?;
    Some((
        if exp.is_some() { TokenType::FloatExponentLiteral } else { TokenType::FloatLiteral },
        NumVal::Float(val),
    ))
}

pub fn is_numeric_type(t: TokenType) -> bool {
    matches!(
        t,
        TokenType::IntegerLiteral | TokenType::FloatLiteral | TokenType::FloatExponentLiteral
    )
}

pub fn check_c08(v: &View) -> Findings {
    let mut f = Findings::new();
    for (i, t) in v.toks.iter().enumerate() {
        if !is_numeric_type(t.ty) {
            continue;
        }
        let text = v.text(i);
        let invalid = v.errors_naming(i).any(|e| e.error_kind() == ErrorKind::InvalidNumericLiteral);
        let missing_x = v
            .errors_naming(i)
            .any(|e| e.error_kind() == ErrorKind::UnterminatedHexNumericLiteral);
        let next = v.src[t.b1.min(v.src.len())..].chars().next();
        if invalid || missing_x {
            // the token must span exactly the malformed literal
            let b = text.as_bytes();
            let first_digit = b.first().is_some_and(u8::is_ascii_digit);
            let ok = if missing_x {
                first_digit
                    && b.iter().all(u8::is_ascii_hexdigit)
                    && !next.is_some_and(|c| c.is_ascii_hexdigit() || c == 'x' || c == 'X')
            } else {
                // empty exponent
                let empty_exp = text.find(['e', 'E']).is_some_and(|p| {
                    let (m, e) = (&text[..p], &text[p + 1..]);
                    matches!(e, "" | "+" | "-")
                        && read_numeric(m).is_some()
                        && !next.is_some_and(|c| c.is_ascii_digit())
                });
                // hex overflow: D H+ x
                let hex_over = first_digit
                    && text.ends_with(['x', 'X'])
                    && b[..b.len() - 1].iter().all(u8::is_ascii_hexdigit)
                    && read_numeric(text).is_none();
                // float over/underflow of a complete literal
                let range = read_numeric(text).is_some_and(|(_, v)| match v {
                    NumVal::Float(x) => x.is_infinite() || x == 0.0,
                    NumVal::Int(_) => false,
                });
                empty_exp || hex_over || range
            };
            if !ok {
                f.push(Finding::new(
                    "C08.span",
                    &format!("{:?}|{}", t.ty, if missing_x { "missing-x" } else { "invalid" }),
                    format!("numeric token {i} {:?} with an error does not span the malformed literal (next char {:?})", text, next),
                ));
            }
            continue;
        }
        match read_numeric(text) {
            None => f.push(Finding::new(
                "C08.spelling",
                &format!("{:?}", t.ty),
                format!("numeric token {i} {:?} {:?} is not a valid literal and carries no error", t.ty, text),
            )),
            Some((ety, eval)) => {
                if ety != t.ty {
                    f.push(Finding::new(
                        "C08.type",
                        &format!("{:?}->{:?}", ety, t.ty),
                        format!("numeric token {i} {:?} has type {:?}, notation says {:?}", text, t.ty, ety),
                    ));
                    continue;
                }
                let ok = match (eval, t.payload) {
                    (NumVal::Int(a), Payload::Integer(b)) => a == b,
                    (NumVal::Float(a), Payload::Float(b)) => a.to_bits() == b.to_bits(),
                    _ => false,
                };
                if !ok {
                    let cls = match (eval, t.payload) {
                        (NumVal::Float(a), Payload::Float(b)) => {
                            let d = (a.to_bits() as i128 - b.to_bits() as i128).abs();
                            if d <= 2 { "rounding" } else { "value" }
                        }
                        (NumVal::Int(_), Payload::Integer(_)) => "value",
                        _ => "payload-kind",
                    };
                    f.push(Finding::new(
                        "C08.value",
                        &format!("{:?}|{cls}", t.ty),
                        format!("numeric token {i} {:?}: payload {:?} expected {:?}", text, t.payload, eval),
                    ));
                }
            }
        }
        if f.len() >= 3 {
            break;
        }
    }
    f
}

pub fn numeric_tokens(v: &View) -> usize {
    v.toks.iter().filter(|t| is_numeric_type(t.ty)).count()
}
