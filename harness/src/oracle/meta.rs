//! Metamorphic relations between two executions: C16 (ASCII case), C17 (leading BOM), and the
//! record machinery shared with C15 (composition) and C18 (macro_sep).

use super::{Finding, Findings};
use sas_lexer::error::ErrorKind;
use sas_lexer::{LexResult, Payload, TokenChannel, TokenType};

#[derive(Clone, Copy, Debug, PartialEq)]
pub struct Rec {
    pub ty: TokenType,
    pub ch: TokenChannel,
    pub b0: u32,
    pub c0: u32,
    pub stop: u32,
    pub line: u32,
    pub col: u32,
    pub end_line: u32,
    pub end_col: u32,
    pub payload: PayloadBits,
}

#[derive(Clone, Copy, Debug, PartialEq, Eq)]
pub enum PayloadBits {
    None,
    Int(u64),
    Float(u64),
    Str(u32, u32),
}

impl From<Payload> for PayloadBits {
    fn from(p: Payload) -> Self {
        match p {
            Payload::None => PayloadBits::None,
            Payload::Integer(v) => PayloadBits::Int(v),
            Payload::Float(f) => PayloadBits::Float(f.to_bits()),
            Payload::StringLiteral(a, b) => PayloadBits::Str(a, b),
        }
    }
}

#[derive(Clone, Copy, Debug, PartialEq, Eq)]
pub struct ErrRec {
    pub kind: ErrorKind,
    pub b: u32,
    pub c: u32,
    pub line: u32,
    pub col: u32,
    pub last: Option<u32>,
}

#[derive(Clone, Debug, PartialEq)]
pub struct Flat {
    pub toks: Vec<Rec>,
    pub errs: Vec<ErrRec>,
    pub lit: String,
    pub line_count: u32,
}

/// Flatten a result using the bulk view for line/column data. Returns None if the bulk view
/// panics (C05 reports that).
pub fn flatten(res: &LexResult) -> Option<Flat> {
    let buf = &res.buffer;
    let bulk = std::panic::catch_unwind(std::panic::AssertUnwindSafe(|| buf.into_resolved_token_vec())).ok()?;
    let infos: Vec<_> = buf.iter_tokens_infos().collect();
    if bulk.len() != infos.len() {
        return None;
    }
    let toks = infos
        .iter()
        .zip(bulk.iter())
        .map(|((_, ti), r)| Rec {
            ty: ti.token_type(),
            ch: ti.channel(),
            b0: ti.byte_offset().get(),
            c0: ti.start().get(),
            stop: r.stop,
            line: r.line,
            col: r.column,
            end_line: r.end_line,
            end_col: r.end_column,
            payload: ti.payload().into(),
        })
        .collect();
    let errs = res
        .errors
        .iter()
        .map(|e| ErrRec {
            kind: e.error_kind(),
            b: e.at_byte_offset(),
            c: e.at_char_offset(),
            line: e.on_line(),
            col: e.at_column(),
            last: e.last_token().map(|t| t.get()),
        })
        .collect();
    Some(Flat {
        toks,
        errs,
        lit: buf.string_literals_buffer().to_string(),
        line_count: buf.line_count(),
    })
}

/// First difference between two flat results, as (class, message).
pub fn diff(exp: &Flat, act: &Flat) -> Option<(String, String)> {
    let n = exp.toks.len().min(act.toks.len());
    for i in 0..n {
        let (e, a) = (&exp.toks[i], &act.toks[i]);
        if e != a {
            let field = if e.ty != a.ty {
                format!("type:{:?}->{:?}", e.ty, a.ty)
            } else if e.ch != a.ch {
                format!("channel:{:?}", e.ty)
            } else if e.b0 != a.b0 || e.c0 != a.c0 || e.stop != a.stop {
                format!("offset:{:?}", e.ty)
            } else if e.line != a.line || e.end_line != a.end_line {
                format!("line:{:?}", e.ty)
            } else if e.col != a.col || e.end_col != a.end_col {
                format!("column:{:?}", e.ty)
            } else {
                format!("payload:{:?}", e.ty)
            };
            return Some((field, format!("token {i}: expected {e:?} got {a:?}")));
        }
    }
    if exp.toks.len() != act.toks.len() {
        let extra = if act.toks.len() > n { act.toks[n].ty } else { exp.toks[n].ty };
        return Some((
            format!("token-count:{}:{:?}", if act.toks.len() > n { "more" } else { "fewer" }, extra),
            format!("expected {} tokens got {}", exp.toks.len(), act.toks.len()),
        ));
    }
    if exp.lit != act.lit {
        return Some(("literal-buffer".into(), format!("literal buffer expected {:?} got {:?}", exp.lit, act.lit)));
    }
    if exp.line_count != act.line_count {
        return Some(("line-count".into(), format!("line_count expected {} got {}", exp.line_count, act.line_count)));
    }
    let m = exp.errs.len().min(act.errs.len());
    for i in 0..m {
        if exp.errs[i] != act.errs[i] {
            let (e, a) = (&exp.errs[i], &act.errs[i]);
            let field = if e.kind != a.kind {
                format!("error-kind:{:?}->{:?}", e.kind, a.kind)
            } else if e.last != a.last {
                format!("error-last-token:{:?}", e.kind)
            } else {
                format!("error-position:{:?}", e.kind)
            };
            return Some((field, format!("error {i}: expected {e:?} got {a:?}")));
        }
    }
    if exp.errs.len() != act.errs.len() {
        let k = if act.errs.len() > m { act.errs[m].kind } else { exp.errs[m].kind };
        return Some((
            format!("error-count:{}:{:?}", if act.errs.len() > m { "more" } else { "fewer" }, k),
            format!("expected {} errors got {}", exp.errs.len(), act.errs.len()),
        ));
    }
    None
}

// ---------------------------------------------------------------------------------------------
// C16

/// Flip the case of ASCII letters selected by `pick(index_of_letter)`.
pub fn mangle_case(s: &str, mut pick: impl FnMut(usize) -> bool) -> String {
    let mut k = 0;
    s.chars()
        .map(|c| {
            if c.is_ascii_alphabetic() {
                let flip = pick(k);
                k += 1;
                if flip {
                    if c.is_ascii_lowercase() {
                        c.to_ascii_uppercase()
                    } else {
                        c.to_ascii_lowercase()
                    }
                } else {
                    c
                }
            } else {
                c
            }
        })
        .collect()
}

pub fn check_c16(orig: &LexResult, mangled: &LexResult) -> Findings {
    let mut f = Findings::new();
    let (Some(mut a), Some(mut b)) = (flatten(orig), flatten(mangled)) else {
        return f;
    };
    a.lit.make_ascii_lowercase();
    b.lit.make_ascii_lowercase();
    if let Some((cls, msg)) = diff(&a, &b) {
        f.push(Finding::new("C16.diff", &cls, msg));
    }
    f
}

// ---------------------------------------------------------------------------------------------
// C17

pub fn check_c17(plain: &LexResult, with_bom: &LexResult) -> Findings {
    let mut f = Findings::new();
    let (Some(mut exp), Some(act)) = (flatten(plain), flatten(with_bom)) else {
        return f;
    };
    for t in &mut exp.toks {
        t.b0 += 3;
        t.c0 += 1;
        t.stop += 1;
    }
    for e in &mut exp.errs {
        e.b += 3;
        e.c += 1;
    }
    if let Some((cls, msg)) = diff(&exp, &act) {
        f.push(Finding::new("C17.diff", &cls, msg));
    }
    if act.toks.first().is_some_and(|t| t.b0 < 3) {
        f.push(Finding::new("C17.bom-token", "", "a token covers the byte-order mark".into()));
    }
    // the per-token accessors (not only the bulk view) report unchanged lines and columns
    let (pb, wb) = (&plain.buffer, &with_bom.buffer);
    for ((ip, tp), (iw, _)) in pb.iter_tokens_infos().zip(wb.iter_tokens_infos()) {
        let a = [pb.get_token_start_line(ip).ok(), pb.get_token_start_column(ip).ok(), pb.get_token_end_line(ip).ok(), pb.get_token_end_column(ip).ok()];
        let b = [wb.get_token_start_line(iw).ok(), wb.get_token_start_column(iw).ok(), wb.get_token_end_line(iw).ok(), wb.get_token_end_column(iw).ok()];
        if a != b {
            let which = ["start-line", "start-column", "end-line", "end-column"];
            let k = (0..4).find(|&k| a[k] != b[k]).unwrap_or(0);
            f.push(Finding::new(
                "C17.accessor",
                &format!("{}|{:?}", which[k], tp.token_type()),
                format!("token {}: accessors report (line, column, end line, end column) {:?} without and {:?} with the mark", ip.get(), a, b),
            ));
            break;
        }
    }
    f
}

// ---------------------------------------------------------------------------------------------
// C18 (in-process half): MacroSep placement rules on a macro_sep build

pub fn check_macro_sep_placement(res: &LexResult) -> Findings {
    let mut f = Findings::new();
    let infos: Vec<_> = res.buffer.iter_tokens_infos().map(|(_, t)| *t).collect();
    for (i, t) in infos.iter().enumerate() {
        if t.token_type() != TokenType::MacroSep {
            continue;
        }
        let next = infos.get(i + 1);
        let width_ok = next.is_some_and(|n| n.byte_offset() == t.byte_offset());
        if !width_ok || t.channel() != TokenChannel::DEFAULT {
            f.push(Finding::new("C18.sep-shape", "", format!("MacroSep token {i} is not a zero-width default-channel token")));
            continue;
        }
        let nt = next.map(|n| n.token_type());
        let next_ok = nt.is_some_and(|x| {
            x == TokenType::MacroLabel
                || ((x as u16) >= TokenType::KwmAbort as u16 && (x as u16) <= TokenType::KwmRun as u16)
        });
        if !next_ok {
            f.push(Finding::new(
                "C18.sep-next",
                &format!("{nt:?}"),
                format!("MacroSep token {i} is followed by {nt:?}, not by a macro statement keyword or label"),
            ));
        }
        let prev = infos[..i]
            .iter()
            .rev()
            .find(|p| p.channel() == TokenChannel::DEFAULT)
            .map(|p| p.token_type());
        if matches!(
            prev,
            Some(TokenType::SEMI | TokenType::MacroLabel | TokenType::KwmThen | TokenType::KwmElse | TokenType::MacroSep)
        ) {
            f.push(Finding::new(
                "C18.sep-prev",
                &format!("{prev:?}"),
                format!("MacroSep token {i} directly follows {prev:?}"),
            ));
        }
    }
    f
}
