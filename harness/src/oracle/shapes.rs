//! C06: every token's raw text has the shape its type and channel promise (DESIGN §7.1).

use super::{Finding, Findings};
use crate::view::View;
use sas_lexer::error::ErrorKind;
use sas_lexer::{Payload, TokenChannel, TokenType};
use std::collections::BTreeMap;
use std::sync::OnceLock;
use strum::IntoEnumIterator;
use unicode_ident::{is_xid_continue, is_xid_start};

pub fn is_name_start(c: char) -> bool {
    c == '_' || is_xid_start(c)
}

pub fn is_name(s: &str) -> bool {
    let mut it = s.chars();
    match it.next() {
        Some(c) if is_name_start(c) => it.all(is_xid_continue),
        _ => false,
    }
}

/// Keyword spellings per keyword token type, derived from the variant names (not from the
/// crate's private maps): `KwFoo` -> `FOO`, `KwmFoo` -> `%FOO`, plus the documented aliases.
pub fn keyword_table() -> &'static BTreeMap<TokenType, Vec<String>> {
    static T: OnceLock<BTreeMap<TokenType, Vec<String>>> = OnceLock::new();
    T.get_or_init(|| {
        let mut m = BTreeMap::new();
        for t in TokenType::iter() {
            let name = format!("{t:?}");
            let kws: Vec<String> = if let Some(rest) = name.strip_prefix("Kwm") {
                match t {
                    TokenType::KwmInclude => vec!["INCLUDE".into(), "INC".into()],
                    _ => vec![rest.to_ascii_uppercase()],
                }
            } else if let Some(rest) = name.strip_prefix("Kw") {
                match t {
                    TokenType::KwAllVar => vec!["_ALL_".into()],
                    TokenType::KwNullDataset => vec!["_NULL_".into()],
                    TokenType::KwCorr => vec!["CORR".into(), "CORRESPONDING".into()],
                    TokenType::KwExecute => vec!["EXEC".into(), "EXECUTE".into()],
                    _ => vec![rest.to_ascii_uppercase()],
                }
            } else {
                continue;
            };
            m.insert(t, kws);
        }
        m
    })
}

pub fn is_macro_kw_type(t: TokenType) -> bool {
    format!("{t:?}").starts_with("Kwm")
}

const SYMBOL_ALPHABET: &str = "'\";/&%*(){}[]!¦|¬^~∘+-<>.,:=$@#?";

fn fixed_symbol(t: TokenType) -> Option<&'static str> {
    Some(match t {
        TokenType::LCURLY => "{",
        TokenType::RCURLY => "}",
        TokenType::LBRACK => "[",
        TokenType::RBRACK => "]",
        TokenType::STAR => "*",
        TokenType::STAR2 => "**",
        TokenType::EXCL => "!",
        TokenType::EXCL2 => "!!",
        TokenType::BPIPE => "¦",
        TokenType::BPIPE2 => "¦¦",
        TokenType::PIPE => "|",
        TokenType::PIPE2 => "||",
        TokenType::PLUS => "+",
        TokenType::MINUS => "-",
        TokenType::GTLT => "><",
        TokenType::LTGT => "<>",
        TokenType::LT => "<",
        TokenType::LE => "<=",
        TokenType::GT => ">",
        TokenType::GE => ">=",
        TokenType::SoundsLike => "=*",
        TokenType::DOT => ".",
        TokenType::DOLLAR => "$",
        TokenType::AT => "@",
        TokenType::HASH => "#",
        TokenType::QUESTION => "?",
        TokenType::PERCENT => "%",
        TokenType::MacroVarTerm => ".",
        TokenType::StringExprStart => "\"",
        _ => return None,
    })
}

fn is_digits(s: &str) -> bool {
    !s.is_empty() && s.bytes().all(|b| b.is_ascii_digit())
}
fn is_hexdigits(s: &str) -> bool {
    s.bytes().all(|b| b.is_ascii_hexdigit())
}

/// `D+ (. D*)?` or `. D+`
fn is_mantissa(s: &str) -> bool {
    match s.split_once('.') {
        None => is_digits(s),
        Some((a, b)) => {
            (a.is_empty() || is_digits(a))
                && (b.is_empty() || is_digits(b))
                && !(a.is_empty() && b.is_empty())
        }
    }
}

fn split_exponent(s: &str) -> Option<(&str, &str)> {
    let p = s.find(['e', 'E'])?;
    Some((&s[..p], &s[p + 1..]))
}

/// quoted literal body check: `q … q suffix` with inner q doubled. Returns the suffix found.
fn quoted_shape(text: &str, allow_unterminated: bool) -> Result<(char, bool, String), &'static str> {
    let mut it = text.chars();
    let q = match it.next() {
        Some(c @ ('\'' | '"')) => c,
        _ => return Err("no-opening-quote"),
    };
    let body = &text[1..];
    // scan the body: q q is an escape, single q closes
    let mut i = 0;
    let bytes = body.as_bytes();
    let qb = q as u8;
    while i < bytes.len() {
        if bytes[i] == qb {
            if i + 1 < bytes.len() && bytes[i + 1] == qb {
                i += 2;
                continue;
            }
            // closing quote
            let suffix = &body[i + 1..];
            return Ok((q, true, suffix.to_string()));
        }
        i += 1;
    }
    if allow_unterminated {
        Ok((q, false, String::new()))
    } else {
        Err("no-closing-quote")
    }
}

fn has_error_naming(v: &View, i: usize, kind: ErrorKind) -> bool {
    v.errors_naming(i).any(|e| e.error_kind() == kind)
}

fn has_error_at(v: &View, off: usize, kind: ErrorKind) -> bool {
    v.errors()
        .iter()
        .any(|e| e.error_kind() == kind && e.at_byte_offset() as usize == off)
}

fn prev_significant(v: &View, i: usize) -> Option<usize> {
    let mut j = i;
    while j > 0 {
        j -= 1;
        if v.toks[j].ty != TokenType::WS && v.toks[j].ty != TokenType::CStyleComment {
            return Some(j);
        }
    }
    None
}

fn datalines_start_shape(text: &str) -> Option<bool> {
    // returns Some(is4)
    let up = text.to_ascii_uppercase();
    for (kw, is4) in [
        ("DATALINES4", true),
        ("CARDS4", true),
        ("LINES4", true),
        ("DATALINES", false),
        ("CARDS", false),
        ("LINES", false),
    ] {
        if let Some(rest) = up.strip_prefix(kw) {
            // compare on the original text for whitespace (upper-casing keeps char boundaries
            // only for ASCII; the keyword part is ASCII so the tail offset is the same)
            let tail = &text[kw.len()..];
            let _ = rest;
            if let Some(ws) = tail.strip_suffix(';') {
                if ws.chars().all(char::is_whitespace) {
                    return Some(is4);
                }
            }
        }
    }
    None
}

/// Returns Err(mismatch class) if the token's text does not fit its type.
fn shape(v: &View, i: usize, macro_sep_build: bool) -> Result<(), String> {
    use TokenType as T;
    let t = v.toks[i];
    let text = v.text(i);
    let n = v.src.len();
    let bad = |s: &str| Err(s.to_string());
    // channel rules
    let comment_type = matches!(t.ty, T::CStyleComment | T::PredictedCommentStat | T::MacroComment);
    if comment_type != (t.ch == TokenChannel::COMMENT) {
        return bad("comment-channel");
    }
    if t.ty == T::WS && t.ch != TokenChannel::HIDDEN {
        return bad("ws-not-hidden");
    }
    if t.ty == T::CatchAll && t.ch != TokenChannel::HIDDEN {
        return bad("catchall-not-hidden");
    }
    if t.ch == TokenChannel::HIDDEN {
        match t.ty {
            T::WS | T::CatchAll | T::KwmStr | T::KwmNrStr | T::RPAREN => {}
            T::LPAREN => {
                let ok = prev_significant(v, i)
                    .is_some_and(|j| matches!(v.toks[j].ty, T::KwmStr | T::KwmNrStr));
                if !ok {
                    return bad("hidden-lparen-not-after-str");
                }
            }
            T::COLON => {
                let ok = prev_significant(v, i).is_some_and(|j| v.toks[j].ty == T::MacroLabel);
                if !ok {
                    return bad("hidden-colon-not-after-label");
                }
            }
            _ => return bad("foreign-type-on-hidden"),
        }
    }
    if matches!(t.ty, T::KwmStr | T::KwmNrStr) && t.ch != TokenChannel::HIDDEN {
        return bad("str-kw-not-hidden");
    }
    // emptiness
    let may_be_empty = matches!(
        t.ty,
        T::EOF
            | T::MacroSep
            | T::SEMI
            | T::LPAREN
            | T::RPAREN
            | T::ASSIGN
            | T::COMMA
            | T::FSLASH
            | T::StringExprEnd
            | T::DatalinesData
            | T::MacroStringEmpty
    );
    if text.is_empty() && !may_be_empty {
        return bad("empty");
    }
    if let Some(sym) = fixed_symbol(t.ty) {
        return if text == sym { Ok(()) } else { bad("not-its-symbol") };
    }
    if let Some(kws) = keyword_table().get(&t.ty) {
        let up = text.to_ascii_uppercase();
        let ok = if is_macro_kw_type(t.ty) {
            up.strip_prefix('%').is_some_and(|r| kws.iter().any(|k| k == r))
        } else {
            kws.iter().any(|k| *k == up)
        };
        return if ok { Ok(()) } else { bad("not-its-keyword") };
    }
    match t.ty {
        T::EOF => {
            if !text.is_empty() || i + 1 != v.toks.len() {
                return bad("eof");
            }
        }
        T::MacroSep => {
            if !text.is_empty() {
                return bad("nonempty");
            }
            if !macro_sep_build {
                return bad("macrosep-in-plain-build");
            }
        }
        T::MacroStringEmpty => {
            if !text.is_empty() {
                return bad("nonempty");
            }
        }
        T::WS => {
            if !text.chars().all(char::is_whitespace) {
                return bad("non-ws-char");
            }
        }
        T::CatchAll => {
            let mut it = text.chars();
            let c = it.next().unwrap_or(' ');
            if it.next().is_some() {
                return bad("more-than-one-char");
            }
            if c.is_whitespace() || is_name_start(c) || c.is_ascii_digit() || SYMBOL_ALPHABET.contains(c) {
                return bad("known-char");
            }
        }
        T::SEMI => match text {
            ";" | "" => {}
            ";;;;" => {
                let ok = i >= 2
                    && v.toks[i - 1].ty == T::DatalinesData
                    && v.toks[i - 2].ty == T::DatalinesStart
                    && datalines_start_shape(v.text(i - 2)) == Some(true);
                if !ok {
                    return bad("4semi-not-datalines4");
                }
            }
            ";;" | ";;;" => {
                let ok = i >= 2
                    && v.toks[i - 1].ty == T::DatalinesData
                    && datalines_start_shape(v.text(i - 2)) == Some(true)
                    && has_error_at(v, t.b0, ErrorKind::UnterminatedDatalines);
                if !ok {
                    return bad("short-terminator-without-error");
                }
            }
            _ => return bad("foreign-char"),
        },
        T::AMP => {
            if !text.bytes().all(|b| b == b'&') {
                return bad("foreign-char");
            }
        }
        T::LPAREN => {
            if !(text == "(" || text.is_empty()) {
                return bad("foreign-char");
            }
        }
        T::RPAREN => {
            if !(text == ")" || text.is_empty()) {
                return bad("foreign-char");
            }
        }
        T::ASSIGN => {
            if !(text == "=" || text == "%=" || text.is_empty()) {
                return bad("foreign-char");
            }
        }
        T::COMMA => {
            if !(text == "," || text.is_empty()) {
                return bad("foreign-char");
            }
        }
        T::FSLASH => {
            if !(text == "/" || text.is_empty()) {
                return bad("foreign-char");
            }
        }
        T::NOT => {
            if !matches!(text, "¬" | "^" | "~" | "∘" | "%^" | "%~") {
                return bad("foreign-char");
            }
        }
        T::NE => {
            if !matches!(text, "¬=" | "^=" | "~=" | "∘=" | "%^=" | "%~=") {
                return bad("foreign-char");
            }
        }
        T::COLON => {
            if text != ":" {
                return bad("foreign-char");
            }
        }
        T::IntegerLiteral => {
            if !matches!(t.payload, Payload::Integer(_)) {
                return bad("payload-kind");
            }
            let first_digit = text.as_bytes().first().is_some_and(u8::is_ascii_digit);
            if is_digits(text) && !has_error_naming(v, i, ErrorKind::UnterminatedHexNumericLiteral) {
                // plain decimal
            } else if first_digit
                && text.ends_with(['x', 'X'])
                && is_hexdigits(&text[..text.len() - 1])
            {
                // hex with terminator
            } else if first_digit
                && is_hexdigits(text)
                && has_error_naming(v, i, ErrorKind::UnterminatedHexNumericLiteral)
            {
                // hex without terminator, reported
            } else {
                return bad("spelling");
            }
        }
        T::FloatLiteral => {
            if !matches!(t.payload, Payload::Float(_)) {
                return bad("payload-kind");
            }
            let first_digit = text.as_bytes().first().is_some_and(u8::is_ascii_digit);
            let invalid = has_error_naming(v, i, ErrorKind::InvalidNumericLiteral);
            let plain = is_mantissa(text);
            // mantissa e [+-]? with nothing after (or an over/underflowing complete literal):
            // reported invalid
            let bad_exp = invalid
                && split_exponent(text).is_some_and(|(m, e)| {
                    is_mantissa(m)
                        && (matches!(e, "" | "+" | "-")
                            || is_digits(e.strip_prefix(['+', '-']).unwrap_or(e)))
                });
            // hex literal too large for u64: reported invalid
            let bad_hex = invalid
                && first_digit
                && ((text.ends_with(['x', 'X']) && is_hexdigits(&text[..text.len() - 1]))
                    || is_hexdigits(text));
            let ok = plain || bad_exp || bad_hex;
            if !ok {
                return bad("spelling");
            }
        }
        T::FloatExponentLiteral => {
            if !matches!(t.payload, Payload::Float(_)) {
                return bad("payload-kind");
            }
            let ok = split_exponent(text).is_some_and(|(m, e)| {
                let e = e.strip_prefix(['+', '-']).unwrap_or(e);
                is_mantissa(m) && is_digits(e)
            });
            if !ok {
                return bad("spelling");
            }
        }
        T::StringLiteral => {
            let unterminated = has_error_naming(v, i, ErrorKind::UnterminatedStringLiteral);
            match quoted_shape(text, unterminated) {
                Ok((_, true, suffix)) => {
                    if !suffix.is_empty() {
                        return bad("text-after-closing-quote");
                    }
                    if unterminated {
                        return bad("terminated-but-reported-unterminated");
                    }
                }
                Ok((_, false, _)) => {
                    if t.b1 != n {
                        return bad("unterminated-not-at-eof");
                    }
                }
                Err(c) => return bad(c),
            }
        }
        T::BitTestingLiteral
        | T::DateLiteral
        | T::DateTimeLiteral
        | T::NameLiteral
        | T::TimeLiteral
        | T::HexStringLiteral => {
            let want = match t.ty {
                T::BitTestingLiteral => "B",
                T::DateLiteral => "D",
                T::DateTimeLiteral => "DT",
                T::NameLiteral => "N",
                T::TimeLiteral => "T",
                _ => "X",
            };
            match quoted_shape(text, false) {
                Ok((_, _, suffix)) => {
                    if suffix.to_ascii_uppercase() != want {
                        return bad("suffix");
                    }
                }
                Err(c) => return bad(c),
            }
        }
        T::StringExprText => {
            // every '"' inside is part of a "" pair
            let b = text.as_bytes();
            let mut k = 0;
            while k < b.len() {
                if b[k] == b'"' {
                    if k + 1 < b.len() && b[k + 1] == b'"' {
                        k += 2;
                        continue;
                    }
                    return bad("lone-quote");
                }
                k += 1;
            }
        }
        T::StringExprEnd => {
            if text != "\"" {
                if !has_error_naming(v, i, ErrorKind::UnterminatedStringLiteral) {
                    return bad("not-a-quote-and-no-error");
                }
                if t.b1 != n {
                    return bad("unterminated-not-at-eof");
                }
            }
        }
        T::BitTestingLiteralExprEnd
        | T::DateLiteralExprEnd
        | T::DateTimeLiteralExprEnd
        | T::NameLiteralExprEnd
        | T::TimeLiteralExprEnd
        | T::HexStringLiteralExprEnd => {
            let want = match t.ty {
                T::BitTestingLiteralExprEnd => "B",
                T::DateLiteralExprEnd => "D",
                T::DateTimeLiteralExprEnd => "DT",
                T::NameLiteralExprEnd => "N",
                T::TimeLiteralExprEnd => "T",
                _ => "X",
            };
            let ok = text
                .strip_prefix('"')
                .is_some_and(|s| s.to_ascii_uppercase() == want);
            if !ok {
                return bad("suffix");
            }
        }
        T::CStyleComment => {
            if !text.starts_with("/*") {
                return bad("opener");
            }
            let inner = &text[2..];
            match inner.find("*/") {
                Some(p) => {
                    if p + 2 != inner.len() {
                        return bad("runs-past-first-closer");
                    }
                }
                None => {
                    if t.b1 != n {
                        return bad("unterminated-not-at-eof");
                    }
                    if !has_error_naming(v, i, ErrorKind::UnterminatedComment) {
                        return bad("unterminated-without-error");
                    }
                }
            }
        }
        T::PredictedCommentStat => {
            if !text.starts_with('*') {
                return bad("opener");
            }
            match text.find(';') {
                Some(p) => {
                    if p + 1 != text.len() {
                        return bad("runs-past-semicolon");
                    }
                }
                None => {
                    if t.b1 != n {
                        return bad("unterminated-not-at-eof");
                    }
                }
            }
        }
        T::MacroComment => {
            if !text.starts_with("%*") {
                return bad("opener");
            }
            // first ';' outside '…' / "…" pairs ends it
            let mut quote: Option<char> = None;
            let mut end: Option<usize> = None;
            for (p, c) in text.char_indices().skip(2) {
                match c {
                    ';' if quote.is_none() => {
                        end = Some(p);
                        break;
                    }
                    '\'' | '"' => match quote {
                        None => quote = Some(c),
                        Some(q) if q == c => quote = None,
                        _ => {}
                    },
                    _ => {}
                }
            }
            match end {
                Some(p) => {
                    if p + 1 != text.len() {
                        return bad("runs-past-semicolon");
                    }
                }
                None => {
                    if t.b1 != n {
                        return bad("unterminated-not-at-eof");
                    }
                }
            }
        }
        T::DatalinesStart => {
            if datalines_start_shape(text).is_none() {
                return bad("spelling");
            }
        }
        T::DatalinesData => {
            let is4 = i >= 1 && datalines_start_shape(v.text(i - 1)) == Some(true);
            if is4 {
                if text.contains(";;;;") {
                    return bad("contains-terminator");
                }
            } else if text.contains(';') {
                return bad("contains-terminator");
            }
        }
        T::CharFormat => {
            let Some(rest) = text.strip_prefix('$') else { return bad("no-dollar") };
            let Some(dot) = rest.rfind('.') else { return bad("no-dot") };
            let (head, tail) = (&rest[..dot], &rest[dot + 1..]);
            if !tail.bytes().all(|b| b.is_ascii_digit()) {
                return bad("precision");
            }
            // head = name? D*
            let name_part = head.trim_end_matches(|c: char| c.is_ascii_digit());
            let ok = name_part.is_empty() || is_name(name_part) || {
                // a name may itself end in digits: accept any split
                is_name(head)
            };
            if !ok {
                return bad("name");
            }
        }
        T::MacroVarResolve => {
            if !text.bytes().all(|b| b == b'&') || !text.len().is_power_of_two() {
                return bad("amp-count");
            }
            match t.payload {
                Payload::Integer(k) if 1usize.checked_shl(k as u32) == Some(text.len()) => {}
                _ => return bad("payload"),
            }
        }
        T::MacroString => {}
        T::MacroLabel | T::MacroIdentifier => {
            if !text.strip_prefix('%').is_some_and(is_name) {
                return bad("spelling");
            }
        }
        T::Identifier => {
            if !is_name(text) {
                return bad("spelling");
            }
        }
        _ => return bad("type-without-row"),
    }
    // payload kinds
    match t.payload {
        Payload::Integer(_) => {
            if !matches!(t.ty, T::IntegerLiteral | T::MacroVarResolve) {
                return bad("unexpected-integer-payload");
            }
        }
        Payload::Float(_) => {
            if !matches!(t.ty, T::FloatLiteral | T::FloatExponentLiteral) {
                return bad("unexpected-float-payload");
            }
        }
        Payload::StringLiteral(..) => {
            if !matches!(
                t.ty,
                T::StringLiteral
                    | T::BitTestingLiteral
                    | T::DateLiteral
                    | T::DateTimeLiteral
                    | T::NameLiteral
                    | T::TimeLiteral
                    | T::HexStringLiteral
                    | T::StringExprText
                    | T::StringExprEnd
                    | T::MacroString
            ) {
                return bad("unexpected-string-payload");
            }
        }
        Payload::None => {}
    }
    Ok(())
}

/// Every `TokenType` variant must have a row; checked once at start-up by `self_check`.
pub fn self_check() -> Result<(), String> {
    // a keyword type is covered by the keyword table; everything else by the match above.
    // Build a tiny fake to make sure no variant falls into "type-without-row" is not possible
    // without a buffer, so instead assert the table covers what it should.
    let kt = keyword_table();
    for t in TokenType::iter() {
        let name = format!("{t:?}");
        if name.starts_with("Kw") && !kt.contains_key(&t) {
            return Err(format!("keyword type {name} has no spelling"));
        }
    }
    Ok(())
}

pub fn check_c06(v: &View, macro_sep_build: bool) -> Findings {
    let mut f = Findings::new();
    // the hidden parentheses are the wrappers of %str/%nrstr calls: they pair up
    let mut open_hidden = 0i64;
    for (i, t) in v.toks.iter().enumerate() {
        if t.ch == TokenChannel::HIDDEN {
            match t.ty {
                TokenType::LPAREN => open_hidden += 1,
                TokenType::RPAREN => {
                    open_hidden -= 1;
                    if open_hidden < 0 {
                        f.push(Finding::new(
                            "C06.shape",
                            "RPAREN|hidden-without-hidden-lparen|",
                            format!("hidden RPAREN token {i} at {} closes no %str/%nrstr wrapper", t.b0),
                        ));
                        open_hidden = 0;
                    }
                }
                _ => {}
            }
        }
    }
    if open_hidden > 0 {
        f.push(Finding::new(
            "C06.shape",
            "LPAREN|hidden-never-closed|",
            format!("{open_hidden} hidden LPAREN wrapper(s) of %str/%nrstr without their hidden RPAREN"),
        ));
    }
    for i in 0..v.toks.len() {
        if let Err(cls) = shape(v, i, macro_sep_build) {
            let t = v.toks[i];
            let ctx = if i > 0 { format!("after-{:?}", v.toks[i - 1].ty) } else { "first".into() };
            // context only for the types whose rule depends on it
            let ctx = match t.ty {
                TokenType::SEMI | TokenType::COLON | TokenType::LPAREN => ctx,
                _ => String::new(),
            };
            f.push(Finding::new(
                "C06.shape",
                &format!("{:?}|{cls}|{ctx}", t.ty),
                format!(
                    "token {i} {:?}/{:?} text {:?} at {}: {cls}",
                    t.ty,
                    t.ch,
                    v.text(i).chars().take(40).collect::<String>(),
                    t.b0
                ),
            ));
            if f.len() >= 3 {
                break;
            }
        }
    }
    f
}
