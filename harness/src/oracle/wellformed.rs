//! C12 (well-formed programs: no diagnostics, no residual state), C13 (delimiters/operators vs
//! masked text) and C14 (omitted mandatory delimiter) over generator ground truth.

use super::payload;
use super::{Finding, Findings};
use crate::gen::grammar::{Deletion, Mark, Prog};
use crate::run::Exec;
use crate::view::View;
use sas_lexer::{Payload, TokenChannel, TokenType};

pub fn check_c12(prog: &Prog, ex: &Exec) -> Findings {
    let mut f = Findings::new();
    let Some(res) = ex.result() else { return f };
    if let Some(e) = res.errors.first() {
        // classify by error kind and the innermost construct kind containing the offset is not
        // known here; use the set of construct kinds as a coarse context
        f.push(Finding::new(
            "C12.error",
            &format!("{:?}", e.error_kind()),
            format!(
                "well-formed program produced {} error(s); first {:?} at byte {}",
                res.errors.len(),
                e.error_kind(),
                e.at_byte_offset()
            ),
        ));
    }
    if let Some(eoi) = &ex.report.end_of_input {
        if !eoi.is_initial() {
            let cls = if eoi.modes.len() != 1 || eoi.modes.first().map(String::as_str) != Some("Default") {
                format!("modes:{}", eoi.modes.last().map_or("", |m| m.split([' ', '(', '{']).next().unwrap_or("")))
            } else if eoi.macro_nesting_level != 0 {
                "macro-nesting".to_string()
            } else if eoi.checkpoint_live {
                "checkpoint".to_string()
            } else {
                "pending-stat".to_string()
            };
            f.push(Finding::new(
                "C12.residual",
                &cls,
                format!("lexer configuration at end of a well-formed program is not initial: {eoi:?}"),
            ));
        }
    }
    let _ = prog;
    f
}

fn tok_starting_at(v: &View, pos: usize) -> Vec<usize> {
    // tokens are sorted by b0: binary search the first, then collect the run
    let first = v.toks.partition_point(|t| t.b0 < pos);
    let mut out = Vec::new();
    let mut i = first;
    while i < v.toks.len() && v.toks[i].b0 == pos {
        out.push(i);
        i += 1;
    }
    out
}

fn tok_covering(v: &View, pos: usize) -> Option<usize> {
    // last token with b0 <= pos and b1 > pos
    let idx = v.toks.partition_point(|t| t.b0 <= pos);
    (0..idx).rev().find(|&i| v.toks[i].b0 <= pos && v.toks[i].b1 > pos)
}

pub struct C13Stats {
    pub delims: usize,
    pub ops: usize,
    pub ints: usize,
    pub masked: usize,
    pub masked_deep_after_subtoken: usize,
    pub insig: usize,
    pub parens_in_text: usize,
}

pub fn check_c13(prog: &Prog, v: &View, stats: &mut C13Stats) -> Findings {
    let mut f = Findings::new();
    for m in &prog.marks {
        match m {
            Mark::Delim { pos, ty, hidden } => {
                stats.delims += 1;
                let want_ch = if *hidden { TokenChannel::HIDDEN } else { TokenChannel::DEFAULT };
                let ok = tok_starting_at(v, *pos)
                    .iter()
                    .any(|&i| v.toks[i].ty == *ty && v.toks[i].b1 == pos + 1 && v.toks[i].ch == want_ch);
                if !ok {
                    let got = tok_covering(v, *pos).map(|i| (v.toks[i].ty, v.toks[i].ch));
                    f.push(Finding::new(
                        "C13.delimiter",
                        &format!("{:?}|got:{:?}", ty, got.map(|g| g.0)),
                        format!("delimiter {:?} at byte {pos} expected as a 1-char {want_ch:?} token; covering token: {got:?}", ty),
                    ));
                }
            }
            Mark::Op { pos, len, ty } => {
                stats.ops += 1;
                let ok = tok_starting_at(v, *pos)
                    .iter()
                    .any(|&i| v.toks[i].ty == *ty && v.toks[i].b1 == pos + len && v.toks[i].ch == TokenChannel::DEFAULT);
                if !ok {
                    let got = tok_covering(v, *pos).map(|i| v.toks[i].ty);
                    f.push(Finding::new(
                        "C13.operator",
                        &format!("{:?}|got:{:?}", ty, got),
                        format!("operator {:?} at byte {pos} (len {len}) is not an operator token; covering token: {got:?}", ty),
                    ));
                }
            }
            Mark::Int { pos, len, value } => {
                stats.ints += 1;
                let ok = tok_starting_at(v, *pos).iter().any(|&i| {
                    v.toks[i].ty == TokenType::IntegerLiteral
                        && v.toks[i].b1 == pos + len
                        && matches!(v.toks[i].payload, Payload::Integer(x) if x == *value)
                });
                if !ok {
                    let got = tok_covering(v, *pos).map(|i| (v.toks[i].ty, v.toks[i].payload));
                    f.push(Finding::new(
                        "C13.integer",
                        &format!("got:{:?}", got.map(|g| g.0)),
                        format!("standalone integer operand {value} at byte {pos} is not an IntegerLiteral with that value: {got:?}"),
                    ));
                }
            }
            Mark::Float { pos, len, bits } => {
                let ok = tok_starting_at(v, *pos).iter().any(|&i| {
                    matches!(v.toks[i].ty, TokenType::FloatLiteral | TokenType::FloatExponentLiteral)
                        && v.toks[i].b1 == pos + len
                        && matches!(v.toks[i].payload, Payload::Float(x) if x.to_bits() == *bits)
                });
                if !ok {
                    let got = tok_covering(v, *pos).map(|i| (v.toks[i].ty, v.toks[i].payload));
                    f.push(Finding::new(
                        "C13.float",
                        &format!("got:{:?}", got.map(|g| g.0)),
                        format!("standalone float operand at byte {pos} is not a float literal with that value: {got:?}"),
                    ));
                }
            }
            Mark::Text { pos, len } => {
                let ok = tok_starting_at(v, *pos)
                    .iter()
                    .any(|&i| v.toks[i].ty == TokenType::MacroString && v.toks[i].b1 == pos + len);
                if !ok {
                    // what does the word consist of instead?
                    let mut inside = Vec::new();
                    let first = v.toks.partition_point(|t| t.b1 <= *pos);
                    let mut i = first;
                    while i < v.toks.len() && v.toks[i].b0 < pos + len {
                        inside.push(format!("{:?}", v.toks[i].ty));
                        i += 1;
                    }
                    inside.truncate(3);
                    f.push(Finding::new(
                        "C13.text",
                        &inside.join("+"),
                        format!(
                            "word operand {:?} at byte {pos} is not one MacroString token: {:?}",
                            &prog.s[*pos..pos + len],
                            inside
                        ),
                    ));
                }
            }
            Mark::Masked { pos, ctx, depth } => {
                stats.masked += 1;
                if *depth >= 1 && !matches!(*ctx, "paren" | "strq" | "strq-paren" | "1arg-builtin") {
                    stats.masked_deep_after_subtoken += 1;
                }
                for i in tok_starting_at(v, *pos) {
                    let t = v.toks[i];
                    if matches!(t.ty, TokenType::COMMA | TokenType::ASSIGN | TokenType::SEMI) && t.b1 > t.b0 {
                        f.push(Finding::new(
                            "C13.masked",
                            &format!("{:?}|ctx:{ctx}|depth:{}", t.ty, (*depth).min(3)),
                            format!("masked delimiter at byte {pos} ({ctx}, paren depth {depth}) became a {:?} token", t.ty),
                        ));
                    }
                }
            }
            Mark::ParenInText { pos } => {
                stats.parens_in_text += 1;
                let covering = tok_covering(v, *pos);
                let ok = covering.is_some_and(|i| v.toks[i].ty == TokenType::MacroString);
                if !ok {
                    f.push(Finding::new(
                        "C13.paren-in-text",
                        &format!("got:{:?}", covering.map(|i| v.toks[i].ty)),
                        format!("nested parenthesis at byte {pos} in a value argument is not inside a MacroString"),
                    ));
                }
            }
            Mark::Insig { start, end, ctx } => {
                stats.insig += 1;
                let aligned = !tok_starting_at(v, *start).is_empty() && !tok_starting_at(v, *end).is_empty();
                let mut all_hidden = true;
                let first = v.toks.partition_point(|t| t.b1 <= *start);
                let mut i = first;
                while i < v.toks.len() && v.toks[i].b0 < *end {
                    if v.toks[i].b1 > v.toks[i].b0 && v.toks[i].ch == TokenChannel::DEFAULT {
                        all_hidden = false;
                    }
                    i += 1;
                }
                if !aligned || !all_hidden {
                    f.push(Finding::new(
                        "C13.insignificant",
                        &format!("{ctx}|{}", if all_hidden { "not-aligned" } else { "default-channel" }),
                        format!("insignificant text [{start},{end}) ({ctx}) is not lexed as hidden/comment tokens"),
                    ));
                }
            }
            _ => {}
        }
        if f.len() >= 3 {
            break;
        }
    }
    f
}

/// Ground-truth part of C07/C08: literal tokens placed by the generator.
pub fn check_generated_literals(prog: &Prog, v: &View) -> Findings {
    let mut f = Findings::new();
    for m in &prog.marks {
        match m {
            Mark::Lit { start, end, ty, unq } => {
                let hit = tok_starting_at(v, *start)
                    .into_iter()
                    .find(|&i| v.toks[i].b1 == *end && v.toks[i].ty == *ty);
                match hit {
                    None => {
                        // not judged here: token boundaries/types are C11/C13's concern
                    }
                    Some(i) => {
                        let act = v.payload_str(i).map(str::to_string);
                        if act != *unq {
                            f.push(Finding::new(
                                "C07.generated",
                                &format!("{:?}|{}", ty, if unq.is_some() { "value" } else { "unexpected" }),
                                format!("literal {:?}: payload {:?} expected {:?}", v.text(i), act, unq),
                            ));
                        }
                    }
                }
            }
            Mark::StrText { start, end, unq } => {
                let hit = tok_starting_at(v, *start)
                    .into_iter()
                    .find(|&i| v.toks[i].b1 == *end && v.toks[i].ty == TokenType::MacroString);
                if let Some(i) = hit {
                    let act = v.payload_str(i).map(str::to_string);
                    if act != *unq {
                        let cls = match (&act, unq) {
                            (None, Some(_)) => "payload-missing",
                            (Some(a), Some(e)) if e.ends_with(a.as_str()) => "missing-leading",
                            _ => "value",
                        };
                        f.push(Finding::new(
                            "C07.generated",
                            &format!("MacroString|{cls}|strq"),
                            format!("%str text {:?}: payload {:?} expected {:?}", v.text(i), act, unq),
                        ));
                    }
                    debug_assert!(unq.is_none() || payload::has_percent_escape(v.text(i)));
                }
            }
            _ => {}
        }
    }
    f
}

/// first character at or after `from` that is neither whitespace nor inside a C comment
pub fn first_significant(s: &str, from: usize) -> usize {
    let mut i = from;
    loop {
        let rest = &s[i..];
        let mut it = rest.chars();
        match it.next() {
            None => return s.len(),
            Some(c) if c.is_whitespace() => i += c.len_utf8(),
            Some('/') if rest.starts_with("/*") => match rest[2..].find("*/") {
                Some(p) => i += 2 + p + 2,
                None => return s.len(),
            },
            Some(_) => return i,
        }
    }
}

/// whitespace outside C comments?
fn has_ws_outside_comments(s: &str) -> bool {
    let mut i = 0;
    while i < s.len() {
        let rest = &s[i..];
        if rest.starts_with("/*") {
            match rest[2..].find("*/") {
                Some(p) => i += 2 + p + 2,
                None => return false,
            }
            continue;
        }
        let c = rest.chars().next().unwrap_or(' ');
        if c.is_whitespace() {
            return true;
        }
        i += c.len_utf8();
    }
    false
}

pub enum DeletionCase {
    /// mutated source + expected error offset
    Check { src: String, at: usize },
    /// the deletion does not remove the delimiter in effect (e.g. the next character is the
    /// same delimiter again)
    Skip,
}

pub fn apply_deletion(prog: &Prog, d: &Deletion) -> DeletionCase {
    let s = &prog.s;
    let dc = match d.token {
        TokenType::LPAREN => '(',
        TokenType::ASSIGN => '=',
        TokenType::COMMA => ',',
        TokenType::FSLASH => '/',
        TokenType::SEMI => ';',
        _ => return DeletionCase::Skip,
    };
    if !s[d.pos..].starts_with(dc) {
        return DeletionCase::Skip;
    }
    let src = format!("{}{}", &s[..d.pos], &s[d.pos + 1..]);
    let at = match d.expect_at {
        Some(p) => {
            if p > d.pos {
                p - 1
            } else {
                p
            }
        }
        None => first_significant(&src, d.prev_end),
    };
    if at >= src.len() {
        return DeletionCase::Skip; // end of input: the ';' rule has no error there
    }
    // The deletion must not merge the neighbours into one token: after a name expression
    // (%let / %do / %copy) comments do not end the name, only whitespace does, and the name
    // continues with name characters, '&' and '%'; after a keyword only direct adjacency merges.
    if d.expect_at.is_none() {
        let between = &src[d.prev_end..at];
        let before = src[..d.prev_end].chars().next_back();
        let after = src[at..].chars().next();
        let cont = |c: Option<char>| c.is_some_and(|c| c == '_' || c.is_alphanumeric() || unicode_ident::is_xid_continue(c));
        let name_expr = matches!(d.token, TokenType::ASSIGN | TokenType::FSLASH);
        let no_gap = if name_expr { !has_ws_outside_comments(between) } else { between.is_empty() };
        if no_gap && cont(before) && (cont(after) || (name_expr && matches!(after, Some('&' | '%')))) {
            return DeletionCase::Skip;
        }
        // after a macro variable reference the name expression also continues
        if no_gap && name_expr && (cont(after) || matches!(after, Some('&' | '%' | '.'))) {
            return DeletionCase::Skip;
        }
    }
    // the delimiter must really be missing now
    if src[at..].starts_with(dc) {
        return DeletionCase::Skip;
    }
    // '/' deletion followed by '*' would open a comment; '=' after '%' etc. are not generated
    DeletionCase::Check { src, at }
}

pub fn check_c14(d: &Deletion, at: usize, v: &View) -> Findings {
    let mut f = Findings::new();
    let has_err = v
        .errors()
        .iter()
        .any(|e| e.error_kind() == d.error && e.at_byte_offset() as usize == at);
    let want_ch = if d.hidden { TokenChannel::HIDDEN } else { TokenChannel::DEFAULT };
    let has_tok = tok_starting_at(v, at)
        .iter()
        .any(|&i| v.toks[i].ty == d.token && v.toks[i].b1 == at && v.toks[i].ch == want_ch);
    if !has_err || !has_tok {
        let nearest = v
            .errors()
            .iter()
            .filter(|e| e.error_kind() == d.error)
            .map(|e| e.at_byte_offset() as i64 - at as i64)
            .min_by_key(|x| x.abs());
        let cls = match (has_err, has_tok, nearest) {
            (false, _, None) => "no-error".to_string(),
            (false, _, Some(dl)) => format!("error-elsewhere:{}", if dl < 0 { "before" } else { "after" }),
            (true, false, _) => "no-recovery-token".to_string(),
            _ => String::new(),
        };
        f.push(Finding::new(
            "C14.missing",
            &format!("{}|{:?}|{cls}", d.construct, d.error),
            format!(
                "deleted {:?} of {}: expected {:?} + zero-width {:?} at byte {at}; error there: {has_err}, token there: {has_tok}, nearest same-kind error delta: {nearest:?}",
                d.token, d.construct, d.error, d.token
            ),
        ));
    }
    f
}

/// End-of-input row of the deletion table: the input ends inside a call's parentheses.
pub fn check_c14_eof(v: &View) -> Findings {
    let mut f = Findings::new();
    let n = v.src.len();
    let has_err = v.errors().iter().any(|e| {
        e.error_kind() == sas_lexer::error::ErrorKind::MissingExpectedRParen && e.at_byte_offset() as usize == n
    });
    let has_tok = v
        .toks
        .iter()
        .any(|t| t.ty == TokenType::RPAREN && t.b0 == n && t.b1 == n);
    if !has_err || !has_tok {
        f.push(Finding::new(
            "C14.eof-rparen",
            if has_err { "no-recovery-token" } else { "no-error" },
            format!("input ends inside a call: MissingExpectedRParen at end: {has_err}, zero-width RPAREN at end: {has_tok}"),
        ));
    }
    f
}

// ---------------------------------------------------------------------------------------------
// end-of-input conservation (C14 end-of-input row, for every execution)

/// What the end-of-input unwinding owes for one pending mode.
enum Owed {
    Tok(String, String),
    StrExprEnd,
    Err(String),
}

fn owed_for_mode(mode: &str, out: &mut Vec<Owed>) {
    if let Some(rest) = mode.strip_prefix("ExpectSymbol(") {
        let inner = rest.trim_end_matches(')');
        let mut it = inner.split(", ");
        let ty = it.next().unwrap_or("").to_string();
        let ch = it.next().unwrap_or("").to_string();
        let kind = match ty.as_str() {
            "RPAREN" => "MissingExpectedRParen",
            "ASSIGN" => "MissingExpectedAssign",
            "LPAREN" => "MissingExpectedLParen",
            "COMMA" => "MissingExpectedComma",
            "FSLASH" => "MissingExpectedFSlash",
            _ => "",
        };
        if !kind.is_empty() {
            out.push(Owed::Err(kind.to_string()));
        }
        out.push(Owed::Tok(ty, ch));
    } else if mode == "ExpectSemiOrEOF" || mode == "MacroDo" {
        out.push(Owed::Tok("SEMI".into(), "DEFAULT".into()));
    } else if mode.starts_with("StringExpr") {
        out.push(Owed::StrExprEnd);
        out.push(Owed::Err("UnterminatedStringLiteral".into()));
    } else if mode.starts_with("MacroStrQuotedExpr") || mode.starts_with("MacroCallValue") || mode.starts_with("MacroEval") {
        let pnl = mode
            .split("pnl: ")
            .nth(1)
            .and_then(|s| s.trim_end_matches([' ', '}']).parse::<u32>().ok())
            .unwrap_or(0);
        if pnl > 0 {
            out.push(Owed::Err("MissingExpectedRParen".into()));
            for _ in 0..pnl {
                out.push(Owed::Tok("RPAREN".into(), "DEFAULT".into()));
            }
        }
    }
    // `MacroNameExpr(_, Some(err))` and `MacroDefName` may add an error of their own; that is not
    // part of the row checked here
}

/// Every expectation that is still pending when the input ends is discharged by exactly its
/// zero-width recovery token (and its error) at the end of input, innermost first; nothing that
/// was pending is dropped. The pending expectations are read from the hooked end-of-input
/// snapshot (the mode stack before it is unwound), the discharge from the returned result.
pub fn check_eoi_recovery(v: &View, ex: &Exec) -> Findings {
    let mut f = Findings::new();
    let Some(eoi) = &ex.report.end_of_input else { return f };
    let n = v.src.len();
    let mut owed = Vec::new();
    for m in eoi.modes.iter().rev() {
        owed_for_mode(m, &mut owed);
    }
    // simulate which tokens this appends
    let mut last = eoi.last_token_type.map(|t| format!("{t:?}"));
    let mut retyped_last = false;
    let mut toks: Vec<(String, String)> = Vec::new();
    let mut errs: Vec<String> = Vec::new();
    for o in owed {
        match o {
            Owed::Tok(t, c) => {
                last = Some(t.clone());
                toks.push((t, c));
            }
            Owed::StrExprEnd => {
                if last.as_deref() == Some("StringExprStart") && toks.is_empty() {
                    retyped_last = true;
                    last = Some("StringLiteral".into());
                } else if last.as_deref() == Some("StringExprStart") {
                    // a start emitted during the unwinding cannot happen: nothing opens there
                    last = Some("StringLiteral".into());
                } else {
                    last = Some("StringExprEnd".into());
                    toks.push(("StringExprEnd".into(), "DEFAULT".into()));
                }
            }
            Owed::Err(k) => errs.push(k),
        }
    }
    // actual tail, without the final EOF
    let body = match v.toks.split_last() {
        Some((eof, rest)) if eof.ty == TokenType::EOF => rest,
        _ => return f, // C02 reports a missing EOF
    };
    if body.len() < toks.len() {
        f.push(Finding::new("C14.eoi-recovery", "fewer-tokens-than-owed", format!("{} recovery token(s) owed at end of input for {:?}, result has {} token(s)", toks.len(), eoi.modes, body.len())));
        return f;
    }
    let tail = &body[body.len() - toks.len()..];
    for (t, (ety, ech)) in tail.iter().zip(&toks) {
        let aty = format!("{:?}", t.ty);
        let ach = format!("{:?}", t.ch);
        if &aty != ety || &ach != ech || t.b0 != n || t.b1 != n {
            f.push(Finding::new(
                "C14.eoi-recovery",
                &format!("owed-{ety}"),
                format!(
                    "pending at end of input {:?} owes the zero-width tail {:?}; the result ends with {:?}",
                    eoi.modes,
                    toks,
                    tail.iter().map(|t| format!("{:?}/{:?}@{}", t.ty, t.ch, t.b0)).collect::<Vec<_>>()
                ),
            ));
            return f;
        }
    }
    if retyped_last {
        let before = body.len() - toks.len();
        if before == 0 || body[before - 1].ty != TokenType::StringLiteral {
            f.push(Finding::new("C14.eoi-recovery", "owed-StringLiteral", format!("a lone quote at end of input must become a StringLiteral; pending {:?}", eoi.modes)));
            return f;
        }
    }
    // the owed errors appear, in this order, among the errors reported at the end of input
    let at_end: Vec<String> = v
        .errors()
        .iter()
        .filter(|e| e.at_byte_offset() as usize == n)
        .map(|e| format!("{:?}", e.error_kind()))
        .collect();
    let mut it = at_end.iter();
    for k in &errs {
        if !it.any(|a| a == k) {
            f.push(Finding::new(
                "C14.eoi-recovery",
                &format!("owed-error-{k}"),
                format!("pending at end of input {:?} owes the errors {:?} at byte {n}; reported there: {:?}", eoi.modes, errs, at_end),
            ));
            return f;
        }
    }
    f
}
