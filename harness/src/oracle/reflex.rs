//! C11: reference lexer for macro-free open code (DESIGN §7.2), written from the lexical rules,
//! and the comparison with the real lexer.

use super::numeric::{read_numeric, NumVal};
use super::payload::decode_hex;
use super::shapes::{is_name_start, keyword_table};
use super::{Finding, Findings};
use crate::view::View;
use sas_lexer::error::ErrorKind;
use sas_lexer::{TokenChannel, TokenType};
use std::collections::HashMap;
use std::sync::OnceLock;
use unicode_ident::is_xid_continue;

/// Purely textual domain test: no '%' followed by a name start or '*', no '&'-run followed by a
/// name start, anywhere in the text.
pub fn is_macro_free(s: &str) -> bool {
    let mut it = s.chars().peekable();
    while let Some(c) = it.next() {
        match c {
            '%' => {
                if let Some(&n) = it.peek() {
                    if n == '*' || is_name_start(n) {
                        return false;
                    }
                }
            }
            '&' => {
                while it.peek() == Some(&'&') {
                    it.next();
                }
                if let Some(&n) = it.peek() {
                    if is_name_start(n) {
                        return false;
                    }
                }
            }
            _ => {}
        }
    }
    true
}

#[derive(Clone, Copy, Debug, PartialEq, Eq)]
pub struct RTok {
    pub ty: TokenType,
    pub ch: TokenChannel,
    pub start: usize,
}

#[derive(Debug, Default)]
pub struct RefResult {
    pub toks: Vec<RTok>,
    pub errs: Vec<(ErrorKind, usize)>,
    /// numeric tokens: (token index, expected value) for valid literals
    pub nums: Vec<(usize, NumVal)>,
}

fn open_code_keywords() -> &'static HashMap<String, TokenType> {
    static T: OnceLock<HashMap<String, TokenType>> = OnceLock::new();
    T.get_or_init(|| {
        let mut m = HashMap::new();
        for (t, kws) in keyword_table() {
            if !format!("{t:?}").starts_with("Kwm") {
                for k in kws {
                    m.insert(k.clone(), *t);
                }
            }
        }
        m
    })
}

struct R<'a> {
    s: &'a str,
    i: usize,
    out: RefResult,
    pending: bool,
    last_default: Option<TokenType>,
}

impl<'a> R<'a> {
    fn peek(&self) -> Option<char> {
        self.s[self.i..].chars().next()
    }
    fn peek2(&self) -> Option<char> {
        let mut it = self.s[self.i..].chars();
        it.next();
        it.next()
    }
    fn bump(&mut self) -> Option<char> {
        let c = self.peek()?;
        self.i += c.len_utf8();
        Some(c)
    }
    fn emit(&mut self, ty: TokenType, ch: TokenChannel, start: usize) {
        self.out.toks.push(RTok { ty, ch, start });
        if ch == TokenChannel::DEFAULT {
            self.last_default = Some(ty);
        }
    }
    fn d(&mut self, ty: TokenType, start: usize) {
        self.emit(ty, TokenChannel::DEFAULT, start);
    }

    fn suffix(&mut self) -> TokenType {
        match self.peek() {
            Some('b' | 'B') => {
                self.bump();
                TokenType::BitTestingLiteral
            }
            Some('d' | 'D') => {
                self.bump();
                if matches!(self.peek(), Some('t' | 'T')) {
                    self.bump();
                    TokenType::DateTimeLiteral
                } else {
                    TokenType::DateLiteral
                }
            }
            Some('n' | 'N') => {
                self.bump();
                TokenType::NameLiteral
            }
            Some('t' | 'T') => {
                self.bump();
                TokenType::TimeLiteral
            }
            Some('x' | 'X') => {
                self.bump();
                TokenType::HexStringLiteral
            }
            _ => TokenType::StringLiteral,
        }
    }

    fn quoted(&mut self, q: char) {
        let start = self.i;
        self.bump();
        let content_start = self.i;
        loop {
            match self.bump() {
                None => {
                    self.d(TokenType::StringLiteral, start);
                    self.out.errs.push((ErrorKind::UnterminatedStringLiteral, self.i));
                    return;
                }
                Some(c) if c == q => {
                    if self.peek() == Some(q) {
                        self.bump();
                        continue;
                    }
                    break;
                }
                Some(_) => {}
            }
        }
        let content_end = self.i - 1;
        let ty = self.suffix();
        self.d(ty, start);
        if ty == TokenType::HexStringLiteral && decode_hex(&self.s[content_start..content_end]).is_none() {
            self.out.errs.push((ErrorKind::InvalidHexStringConstant, self.i));
        }
    }

    fn numeric(&mut self) {
        let start = self.i;
        let rest = self.s[start..].as_bytes();
        let leading_dot = rest[0] == b'.';
        // decimal candidate
        let mut k = 0;
        while k < rest.len() && rest[k].is_ascii_digit() {
            k += 1;
        }
        if k < rest.len() && rest[k] == b'.' {
            k += 1;
            while k < rest.len() && rest[k].is_ascii_digit() {
                k += 1;
            }
        }
        let mut dec_len = k;
        let mut dec_invalid = false;
        if k < rest.len() && (rest[k] == b'e' || rest[k] == b'E') {
            let mut j = k + 1;
            if j < rest.len() && (rest[j] == b'+' || rest[j] == b'-') {
                j += 1;
            }
            let ds = j;
            while j < rest.len() && rest[j].is_ascii_digit() {
                j += 1;
            }
            if j > ds {
                dec_len = j;
            } else {
                // exponent marker without digits: included, makes the literal invalid
                dec_len = ds;
                dec_invalid = true;
            }
        }
        // hex candidate
        let mut hex_len = 0;
        if !leading_dot {
            while hex_len < rest.len() && rest[hex_len].is_ascii_hexdigit() {
                hex_len += 1;
            }
        }
        let next_is_x = |n: usize| matches!(rest.get(n), Some(b'x' | b'X'));
        let use_hex = hex_len > dec_len || (hex_len == dec_len && hex_len > 0 && next_is_x(hex_len));
        if use_hex {
            let digits = &self.s[start..start + hex_len];
            let has_x = next_is_x(hex_len);
            let total = hex_len + usize::from(has_x);
            self.i = start + total;
            let overflow = u64::from_str_radix(digits, 16).is_err();
            if overflow {
                self.d(TokenType::FloatLiteral, start);
                self.out.errs.push((ErrorKind::InvalidNumericLiteral, self.i));
            } else {
                let idx = self.out.toks.len();
                self.d(TokenType::IntegerLiteral, start);
                self.out.nums.push((idx, NumVal::Int(u64::from_str_radix(digits, 16).unwrap_or(0))));
            }
            if !has_x {
                self.out.errs.push((ErrorKind::UnterminatedHexNumericLiteral, self.i));
            }
        } else {
            self.i = start + dec_len;
            let text = &self.s[start..self.i];
            if dec_invalid {
                self.d(TokenType::FloatLiteral, start);
                self.out.errs.push((ErrorKind::InvalidNumericLiteral, self.i));
            } else {
                match read_numeric(text) {
                    Some((ty, v)) => {
                        let idx = self.out.toks.len();
                        self.d(ty, start);
                        self.out.nums.push((idx, v));
                    }
                    None => {
                        self.d(TokenType::FloatLiteral, start);
                        self.out.errs.push((ErrorKind::InvalidNumericLiteral, self.i));
                    }
                }
            }
        }
    }

    fn ident(&mut self) {
        let start = self.i;
        let mut ascii = true;
        while let Some(c) = self.peek() {
            if c.is_ascii() {
                if c.is_ascii_alphanumeric() || c == '_' {
                    self.bump();
                } else {
                    break;
                }
            } else if is_xid_continue(c) {
                ascii = false;
                self.bump();
            } else {
                break;
            }
        }
        let text = &self.s[start..self.i];
        if ascii {
            let up = text.to_ascii_uppercase();
            if let Some(&t) = open_code_keywords().get(&up) {
                self.d(t, start);
                return;
            }
            let four = matches!(up.as_str(), "DATALINES4" | "CARDS4" | "LINES4");
            if four || matches!(up.as_str(), "DATALINES" | "CARDS" | "LINES") {
                let stmt_start = matches!(self.last_default, None | Some(TokenType::SEMI));
                // followed by ws* ';'
                let mut j = self.i;
                let mut found = false;
                for c in self.s[self.i..].chars() {
                    if c == ';' {
                        found = true;
                        break;
                    }
                    if !c.is_whitespace() {
                        break;
                    }
                    j += c.len_utf8();
                }
                if stmt_start && found {
                    self.i = j + 1;
                    self.d(TokenType::DatalinesStart, start);
                    let data_start = self.i;
                    // body
                    let term_len = if four { 4 } else { 1 };
                    loop {
                        match self.peek() {
                            None => {
                                self.out.errs.push((ErrorKind::UnterminatedDatalines, self.i));
                                break;
                            }
                            Some(';') => {
                                let rem = &self.s[self.i..];
                                if rem.len() < term_len && rem.bytes().all(|b| b == b';') {
                                    // the input ends in fewer `;` than the terminator needs: an
                                    // unterminated block whose partial terminator is that run.
                                    // (A `;` followed by anything else is data, however close
                                    // to the end of input it is.)
                                    self.out.errs.push((ErrorKind::UnterminatedDatalines, self.i));
                                    break;
                                }
                                if !four || rem.starts_with(";;;;") {
                                    break;
                                }
                                self.bump();
                            }
                            Some(_) => {
                                self.bump();
                            }
                        }
                    }
                    self.d(TokenType::DatalinesData, data_start);
                    let semi_start = self.i;
                    let mut eaten = 0;
                    while eaten < term_len && self.peek() == Some(';') {
                        self.bump();
                        eaten += 1;
                    }
                    self.d(TokenType::SEMI, semi_start);
                    self.pending = false;
                    return;
                }
            }
        }
        self.d(TokenType::Identifier, start);
    }

    fn char_format(&mut self) -> bool {
        // at '$'
        let mut j = self.i + 1;
        let rest = |j: usize| self.s[j..].chars().next();
        if let Some(c) = rest(j) {
            if is_name_start(c) {
                j += c.len_utf8();
                while let Some(c) = rest(j) {
                    if is_xid_continue(c) {
                        j += c.len_utf8();
                    } else {
                        break;
                    }
                }
            }
        }
        while let Some(c) = rest(j) {
            if c.is_ascii_digit() {
                j += 1;
            } else {
                break;
            }
        }
        if rest(j) != Some('.') {
            return false;
        }
        j += 1;
        while let Some(c) = rest(j) {
            if c.is_ascii_digit() {
                j += 1;
            } else {
                break;
            }
        }
        let start = self.i;
        self.i = j;
        self.d(TokenType::CharFormat, start);
        true
    }

    fn run(mut self) -> RefResult {
        if self.s.starts_with('\u{feff}') {
            self.i = 3;
        }
        while let Some(c) = self.peek() {
            let start = self.i;
            match c {
                c if c.is_whitespace() => {
                    while self.peek().is_some_and(char::is_whitespace) {
                        self.bump();
                    }
                    self.emit(TokenType::WS, TokenChannel::HIDDEN, start);
                }
                '\'' | '"' => {
                    self.quoted(c);
                    self.pending = true;
                }
                ';' => {
                    self.bump();
                    self.d(TokenType::SEMI, start);
                    self.pending = false;
                }
                '/' => {
                    if self.peek2() == Some('*') {
                        self.i += 2;
                        match self.s[self.i..].find("*/") {
                            Some(p) => {
                                self.i += p + 2;
                                self.emit(TokenType::CStyleComment, TokenChannel::COMMENT, start);
                            }
                            None => {
                                self.i = self.s.len();
                                self.emit(TokenType::CStyleComment, TokenChannel::COMMENT, start);
                                self.out.errs.push((ErrorKind::UnterminatedComment, self.i));
                            }
                        }
                    } else {
                        self.bump();
                        self.d(TokenType::FSLASH, start);
                        self.pending = true;
                    }
                }
                '&' => {
                    while self.peek() == Some('&') {
                        self.bump();
                    }
                    self.d(TokenType::AMP, start);
                    self.pending = true;
                }
                '%' => {
                    self.bump();
                    self.d(TokenType::PERCENT, start);
                    self.pending = true;
                }
                '0'..='9' => {
                    self.numeric();
                    self.pending = true;
                }
                '.' if self.peek2().is_some_and(|d| d.is_ascii_digit()) => {
                    self.numeric();
                    self.pending = true;
                }
                c if is_name_start(c) => {
                    self.pending = true; // a datalines block resets it itself
                    self.ident();
                }
                '*' => {
                    if !self.pending {
                        self.bump();
                        loop {
                            match self.bump() {
                                None | Some(';') => break,
                                Some(_) => {}
                            }
                        }
                        self.emit(TokenType::PredictedCommentStat, TokenChannel::COMMENT, start);
                    } else {
                        self.bump();
                        if self.peek() == Some('*') {
                            self.bump();
                            self.d(TokenType::STAR2, start);
                        } else {
                            self.d(TokenType::STAR, start);
                        }
                        self.pending = true;
                    }
                }
                _ => {
                    self.bump();
                    let two = |me: &mut R, second: char, a: TokenType, b: TokenType| {
                        if me.peek() == Some(second) {
                            me.bump();
                            a
                        } else {
                            b
                        }
                    };
                    let ty = match c {
                        '(' => Some(TokenType::LPAREN),
                        ')' => Some(TokenType::RPAREN),
                        '{' => Some(TokenType::LCURLY),
                        '}' => Some(TokenType::RCURLY),
                        '[' => Some(TokenType::LBRACK),
                        ']' => Some(TokenType::RBRACK),
                        '!' => Some(two(&mut self, '!', TokenType::EXCL2, TokenType::EXCL)),
                        '¦' => Some(two(&mut self, '¦', TokenType::BPIPE2, TokenType::BPIPE)),
                        '|' => Some(two(&mut self, '|', TokenType::PIPE2, TokenType::PIPE)),
                        '¬' | '^' | '~' | '∘' => Some(two(&mut self, '=', TokenType::NE, TokenType::NOT)),
                        '+' => Some(TokenType::PLUS),
                        '-' => Some(TokenType::MINUS),
                        '<' => Some(match self.peek() {
                            Some('=') => {
                                self.bump();
                                TokenType::LE
                            }
                            Some('>') => {
                                self.bump();
                                TokenType::LTGT
                            }
                            _ => TokenType::LT,
                        }),
                        '>' => Some(match self.peek() {
                            Some('=') => {
                                self.bump();
                                TokenType::GE
                            }
                            Some('<') => {
                                self.bump();
                                TokenType::GTLT
                            }
                            _ => TokenType::GT,
                        }),
                        '.' => Some(TokenType::DOT),
                        ',' => Some(TokenType::COMMA),
                        ':' => Some(TokenType::COLON),
                        '=' => Some(two(&mut self, '*', TokenType::SoundsLike, TokenType::ASSIGN)),
                        '$' => {
                            self.i = start;
                            if self.char_format() {
                                self.pending = true;
                                continue;
                            }
                            self.i = start + 1;
                            Some(TokenType::DOLLAR)
                        }
                        '@' => Some(TokenType::AT),
                        '#' => Some(TokenType::HASH),
                        '?' => Some(TokenType::QUESTION),
                        _ => None,
                    };
                    match ty {
                        Some(t) => self.d(t, start),
                        None => self.emit(TokenType::CatchAll, TokenChannel::HIDDEN, start),
                    }
                    self.pending = true;
                }
            }
        }
        let n = self.s.len();
        self.d(TokenType::EOF, n);
        self.out
    }
}

pub fn reference_lex(s: &str) -> RefResult {
    R {
        s,
        i: 0,
        out: RefResult::default(),
        pending: false,
        last_default: None,
    }
    .run()
}

pub fn check_c11(v: &View) -> Findings {
    let mut f = Findings::new();
    let r = reference_lex(v.src);
    let n = r.toks.len().min(v.toks.len());
    let mut pending_ctx = String::new();
    for i in 0..n {
        let (e, a) = (r.toks[i], v.toks[i]);
        if e.ty != a.ty || e.ch != a.ch || e.start != a.b0 {
            let prev_default = v.toks[..i]
                .iter()
                .rev()
                .find(|t| t.ch == TokenChannel::DEFAULT)
                .map(|t| t.ty);
            let what = if e.start != a.b0 {
                "boundary"
            } else if e.ty != a.ty {
                "type"
            } else {
                "channel"
            };
            pending_ctx = format!("ref:{:?}/act:{:?}|{what}|prev:{:?}", e.ty, a.ty, prev_default);
            f.push(Finding::new(
                "C11.diff",
                &pending_ctx,
                format!(
                    "token {i}: reference {:?}/{:?}@{} vs lexer {:?}/{:?}@{} (text {:?})",
                    e.ty,
                    e.ch,
                    e.start,
                    a.ty,
                    a.ch,
                    a.b0,
                    v.text(i).chars().take(30).collect::<String>()
                ),
            ));
            return f;
        }
    }
    if r.toks.len() != v.toks.len() {
        f.push(Finding::new(
            "C11.diff",
            "token-count",
            format!("reference has {} tokens, lexer {}", r.toks.len(), v.toks.len()),
        ));
        return f;
    }
    let _ = pending_ctx;
    // errors: multiset of (kind, offset)
    let mut exp: Vec<(u16, usize)> = r.errs.iter().map(|(k, o)| (*k as u16, *o)).collect();
    let mut act: Vec<(u16, usize)> = v
        .errors()
        .iter()
        .map(|e| (e.error_kind() as u16, e.at_byte_offset() as usize))
        .collect();
    exp.sort_unstable();
    act.sort_unstable();
    if exp != act {
        let missing = r
            .errs
            .iter()
            .find(|(k, o)| !act.contains(&(*k as u16, *o)))
            .map(|(k, _)| format!("missing:{k:?}"));
        let extra = v
            .errors()
            .iter()
            .find(|e| !exp.contains(&(e.error_kind() as u16, e.at_byte_offset() as usize)))
            .map(|e| format!("extra:{:?}", e.error_kind()));
        f.push(Finding::new(
            "C11.errors",
            &missing.or(extra).unwrap_or_else(|| "multiplicity".into()),
            format!("reference errors {:?} vs lexer {:?}", r.errs, v.errors().iter().map(|e| (e.error_kind(), e.at_byte_offset())).collect::<Vec<_>>()),
        ));
    }
    f
}
