//! C15: lexing is compositional at closed statement boundaries.

use super::meta::{diff, flatten, Flat, PayloadBits};
use super::{Finding, Findings};
use crate::run::Exec;
use crate::view::View;
use sas_lexer::{LexResult, TokenType};

/// Is `a` a closed prefix? Its last token before EOF must be a consumed `;`, a predicted
/// comment ending in `;` or a macro comment terminated by its `;`, and the end-of-input
/// snapshot must be the initial configuration.
pub fn is_closed(src: &str, ex: &Exec, by_construction: bool) -> bool {
    let Some(res) = ex.result() else { return false };
    // A generated well-formed prefix cut at a statement boundary is closed by construction: the
    // lexer's own snapshot is not consulted, so that state leaking past the boundary shows up as
    // a composition failure instead of silently disqualifying the prefix.
    if !by_construction {
        let Some(eoi) = &ex.report.end_of_input else { return false };
        if !eoi.is_initial() {
            return false;
        }
    }
    if !res.errors.is_empty() {
        // an error raised at end of input (unterminated comment, string, ...) means the tail was
        // cut short, not closed; errors earlier in A are fine but keep the rule simple and strict:
        // only the *last token's* shape matters, so fall through
    }
    let v = View::new(src, res);
    let n = v.toks.len();
    if n < 2 {
        return false;
    }
    let last = n - 2;
    // the look-behind register (last default-channel token) must read as at the start of a
    // program: nothing, or a ';'
    let last_default = v.toks[..n - 1]
        .iter()
        .rev()
        .find(|t| t.ch == sas_lexer::TokenChannel::DEFAULT);
    if last_default.is_some_and(|t| t.ty != TokenType::SEMI) {
        return false;
    }
    // a ';' that merely stands in for the terminator of an unterminated datalines block is
    // not a statement end
    // (the datalines4 scanner decides this by looking at how much text is left, i.e. it depends
    // on the end of input: any prefix with such a block is not closed)
    if res
        .errors
        .iter()
        .any(|e| e.error_kind() == sas_lexer::error::ErrorKind::UnterminatedDatalines)
    {
        return false;
    }
    let t = v.toks[last];
    let text = v.text(last);
    if t.b1 != src.len() {
        return false;
    }
    match t.ty {
        TokenType::SEMI => !text.is_empty() && text.bytes().all(|b| b == b';'),
        TokenType::PredictedCommentStat => text.ends_with(';'),
        TokenType::MacroComment => {
            // terminated by a ';' outside the quote pairs the scanner honours
            let mut quote: Option<char> = None;
            let mut end = None;
            for (p, c) in text.char_indices().skip(2) {
                match c {
                    ';' if quote.is_none() => {
                        end = Some(p);
                        break;
                    }
                    '\'' | '"' => match quote {
                        None => quote = Some(c),
                        Some(q) if q == c => quote = None,
                        _ => {}
                    },
                    _ => {}
                }
            }
            end == Some(text.len() - 1)
        }
        _ => false,
    }
}

/// Expected result for A‖B built from the results for A and B.
pub fn compose_expected(a_src: &str, a: &LexResult, b: &LexResult) -> Option<Flat> {
    let fa = flatten(a)?;
    let fb = flatten(b)?;
    let a_bytes = a_src.len() as u32;
    let a_chars = a_src.chars().count() as u32;
    let a_lines = fa.line_count - 1;
    // width of A's last line in chars (a leading BOM is not part of line 1)
    let last_line_start = match a_src.rfind('\n') {
        Some(p) => a_src[..=p].chars().count() as u32,
        None => u32::from(a_src.starts_with('\u{feff}')),
    };
    let width = a_chars - last_line_start;
    let a_tok = (fa.toks.len() - 1) as u32; // without EOF
    let a_lit = fa.lit.len() as u32;

    let mut toks = fa.toks[..fa.toks.len() - 1].to_vec();
    // the last token of A ends where B starts: its end line/col are unaffected
    for t in &fb.toks {
        let mut t = *t;
        t.b0 += a_bytes;
        t.c0 += a_chars;
        t.stop += a_chars;
        if t.line == 1 {
            t.col += width;
        }
        if t.end_line == 1 {
            t.end_col += width;
        }
        t.line += a_lines;
        t.end_line += a_lines;
        if let PayloadBits::Str(x, y) = t.payload {
            t.payload = PayloadBits::Str(x + a_lit, y + a_lit);
        }
        toks.push(t);
    }
    let mut errs = fa.errs.clone();
    for e in &fb.errs {
        let mut e = *e;
        e.b += a_bytes;
        e.c += a_chars;
        if e.line == 1 {
            e.col += width;
        }
        e.line += a_lines;
        e.last = match e.last {
            Some(t) => Some(t + a_tok),
            None => a_tok.checked_sub(1),
        };
        errs.push(e);
    }
    Some(Flat {
        toks,
        errs,
        lit: format!("{}{}", fa.lit, fb.lit),
        line_count: fa.line_count + fb.line_count - 1,
    })
}

pub fn check_c15(a_src: &str, a: &LexResult, b: &LexResult, ab: &LexResult) -> Findings {
    let mut f = Findings::new();
    let Some(exp) = compose_expected(a_src, a, b) else { return f };
    let Some(act) = flatten(ab) else { return f };
    if let Some((cls, msg)) = diff(&exp, &act) {
        // context: how A ended
        let va_last = exp_last_type(a);
        f.push(Finding::new("C15.diff", &format!("{cls}|A-ends-{va_last}"), msg));
    }
    f
}

fn exp_last_type(a: &LexResult) -> String {
    let n = a.buffer.token_count() as usize;
    a.buffer
        .iter_tokens_infos()
        .nth(n.saturating_sub(2))
        .map_or("none".into(), |(_, t)| format!("{:?}", t.token_type()))
}

/// Shadow of the carry-over counters: the macro nesting level and the depth of the
/// pending-statement stack that the hook reports at end of input must be what the *emitted*
/// keyword tokens imply (`%macro` +1 / `%mend` -1 saturating; the stack starts at one frame, `%do`
/// and `%macro` push one, `%end` and `%mend` pop one but never the last). A counter that drifts
/// from its tokens is state that leaks past statement boundaries, and it also makes the lexer's
/// own notion of a closed prefix (which C15 relies on for arbitrary strings) wrong.
pub fn check_state_shadow(v: &View, ex: &Exec) -> Findings {
    let mut f = Findings::new();
    let Some(eoi) = &ex.report.end_of_input else { return f };
    let mut nesting: u32 = 0;
    let mut frames: usize = 1;
    for t in &v.toks {
        match t.ty {
            TokenType::KwmMacro => {
                nesting += 1;
                frames += 1;
            }
            TokenType::KwmDo => frames += 1,
            TokenType::KwmMend => {
                nesting = nesting.saturating_sub(1);
                if frames > 1 {
                    frames -= 1;
                }
            }
            TokenType::KwmEnd => {
                if frames > 1 {
                    frames -= 1;
                }
            }
            _ => {}
        }
    }
    if eoi.macro_nesting_level != nesting {
        f.push(Finding::new(
            "C15.state-shadow",
            "macro-nesting",
            format!("macro nesting level at end of input is {} but the emitted %macro/%mend tokens imply {}", eoi.macro_nesting_level, nesting),
        ));
    }
    if eoi.pending_stat_stack.len() != frames {
        f.push(Finding::new(
            "C15.state-shadow",
            "pending-frames",
            format!("pending-statement stack has {} frame(s) at end of input but the emitted %do/%macro/%end/%mend tokens imply {}", eoi.pending_stat_stack.len(), frames),
        ));
    }
    f
}
