//! Oracles. Each returns a list of findings; an empty list means "held on this execution".

pub mod compose;
pub mod meta;
pub mod numeric;
pub mod payload;
pub mod reflex;
pub mod shapes;
pub mod structural;
pub mod wellformed;

#[derive(Clone, Debug)]
pub struct Finding {
    /// rule id, e.g. "C02.monotonic"
    pub rule: &'static str,
    /// signature: rule + classes (never the raw input)
    pub sig: String,
    pub msg: String,
}

impl Finding {
    pub fn new(rule: &'static str, classes: &str, msg: String) -> Finding {
        let sig = if classes.is_empty() {
            rule.to_string()
        } else {
            format!("{rule}|{classes}")
        };
        Finding { rule, sig, msg }
    }
}

pub type Findings = Vec<Finding>;
