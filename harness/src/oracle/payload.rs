//! C07: string payloads hold the unquoted value and partition the literal buffer.

use super::{Finding, Findings};
use crate::view::View;
use sas_lexer::error::ErrorKind;
use sas_lexer::{Payload, TokenChannel, TokenType};

/// Collapse doubled quote characters.
pub fn undouble(s: &str, q: char) -> String {
    let mut o = String::with_capacity(s.len());
    let mut it = s.chars().peekable();
    while let Some(c) = it.next() {
        if c == q && it.peek() == Some(&q) {
            it.next();
        }
        o.push(c);
    }
    o
}

/// Undo %-quoting of %str/%nrstr text, left to right.
pub fn unpercent(s: &str) -> String {
    let mut o = String::with_capacity(s.len());
    let mut it = s.chars().peekable();
    while let Some(c) = it.next() {
        if c == '%' {
            if let Some(&n) = it.peek() {
                if matches!(n, '\'' | '"' | '%' | '(' | ')') {
                    o.push(n);
                    it.next();
                    continue;
                }
            }
        }
        o.push(c);
    }
    o
}

pub fn has_percent_escape(s: &str) -> bool {
    let b = s.as_bytes();
    (0..b.len().saturating_sub(1)).any(|i| b[i] == b'%' && matches!(b[i + 1], b'\'' | b'"' | b'%' | b'(' | b')'))
}

/// Reference hex-string decoding: commas removed, an even number of hex digits, Latin-1.
pub fn decode_hex(content: &str) -> Option<String> {
    let cleaned: Vec<u8> = content.bytes().filter(|&b| b != b',').collect();
    if cleaned.len() % 2 != 0 || !cleaned.iter().all(u8::is_ascii_hexdigit) {
        return None;
    }
    let hv = |b: u8| -> u32 {
        match b {
            b'0'..=b'9' => u32::from(b - b'0'),
            b'a'..=b'f' => u32::from(b - b'a' + 10),
            _ => u32::from(b - b'A' + 10),
        }
    };
    let mut o = String::new();
    for p in cleaned.chunks(2) {
        o.push(char::from_u32(hv(p[0]) * 16 + hv(p[1])).unwrap_or('\u{fffd}'));
    }
    Some(o)
}

fn is_quoted_literal_type(t: TokenType) -> bool {
    matches!(
        t,
        TokenType::StringLiteral
            | TokenType::BitTestingLiteral
            | TokenType::DateLiteral
            | TokenType::DateTimeLiteral
            | TokenType::NameLiteral
            | TokenType::TimeLiteral
            | TokenType::HexStringLiteral
    )
}

fn suffix_len(t: TokenType) -> usize {
    match t {
        TokenType::StringLiteral => 0,
        TokenType::DateTimeLiteral => 2,
        _ => 1,
    }
}

/// Content between the quotes of a quoted literal token (raw, still doubled) and whether it is
/// terminated. `None` when the text does not even start with a quote (C06's business).
pub fn literal_content(text: &str, ty: TokenType, unterminated: bool) -> Option<(char, &str)> {
    let q = text.chars().next()?;
    if q != '\'' && q != '"' {
        return None;
    }
    if unterminated {
        return Some((q, &text[1..]));
    }
    let sl = suffix_len(ty);
    if text.len() < 2 + sl {
        return None;
    }
    let end = text.len() - sl - 1;
    if !text.is_char_boundary(end) || text[end..].chars().next() != Some(q) {
        return None;
    }
    Some((q, &text[1..end]))
}

/// What the payload of token `i` must be: `Some(Some(text))` = payload with this value,
/// `Some(None)` = no payload, `None` = this oracle does not judge the token.
pub fn expected_payload(v: &View, i: usize) -> Option<Option<String>> {
    let t = v.toks[i];
    let text = v.text(i);
    if is_quoted_literal_type(t.ty) {
        let unterminated = v
            .errors_naming(i)
            .any(|e| e.error_kind() == ErrorKind::UnterminatedStringLiteral);
        let (q, content) = literal_content(text, t.ty, unterminated)?;
        if t.ty == TokenType::HexStringLiteral {
            if let Some(d) = decode_hex(content) {
                return Some(Some(d));
            }
        }
        let qq: String = [q, q].iter().collect();
        return Some(if content.contains(&qq) { Some(undouble(content, q)) } else { None });
    }
    match t.ty {
        TokenType::StringExprText => Some(if text.contains("\"\"") { Some(undouble(text, '"')) } else { None }),
        TokenType::StringExprEnd => {
            if text == "\"" || text.is_empty() {
                Some(None)
            } else {
                // unterminated: carries the rest of the text
                Some(if text.contains("\"\"") { Some(undouble(text, '"')) } else { None })
            }
        }
        TokenType::MacroString => {
            if matches!(t.payload, Payload::StringLiteral(..)) {
                // a payload on a macro string always means %-unquoting
                Some(Some(unpercent(text)))
            } else if in_str_call_first_segment(v, i) {
                Some(if has_percent_escape(text) { Some(unpercent(text)) } else { None })
            } else {
                None
            }
        }
        _ => None,
    }
}

/// The macro string directly after the hidden `(` of a %str/%nrstr call is certainly %str text.
fn in_str_call_first_segment(v: &View, i: usize) -> bool {
    if i < 2 {
        return false;
    }
    let p = v.toks[i - 1];
    if !(p.ty == TokenType::LPAREN && p.ch == TokenChannel::HIDDEN && p.b0 != p.b1) {
        return false;
    }
    let mut j = i - 1;
    while j > 0 {
        j -= 1;
        match v.toks[j].ty {
            TokenType::WS | TokenType::CStyleComment => continue,
            TokenType::KwmStr | TokenType::KwmNrStr => return true,
            _ => return false,
        }
    }
    false
}

pub fn check_c07(v: &View) -> Findings {
    let mut f = Findings::new();
    let lit = v.res.buffer.string_literals_buffer();
    let mut cursor = 0u32;
    for (i, t) in v.toks.iter().enumerate() {
        if let Payload::StringLiteral(a, b) = t.payload {
            let ok_range = a <= b
                && (b as usize) <= lit.len()
                && lit.is_char_boundary(a as usize)
                && lit.is_char_boundary(b as usize);
            if !ok_range {
                f.push(Finding::new(
                    "C07.range",
                    &format!("{:?}", t.ty),
                    format!("token {i} {:?} payload range {a}..{b} invalid for literal buffer of {} bytes", t.ty, lit.len()),
                ));
                return f;
            }
            if a != cursor {
                f.push(Finding::new(
                    "C07.partition",
                    &format!("{:?}|{}", t.ty, if a > cursor { "gap" } else { "overlap" }),
                    format!("token {i} {:?} payload starts at {a}, previous payload ended at {cursor}", t.ty),
                ));
                return f;
            }
            cursor = b;
        }
    }
    if cursor as usize != lit.len() {
        f.push(Finding::new(
            "C07.partition",
            "tail",
            format!("payload ranges end at {cursor} but the literal buffer has {} bytes", lit.len()),
        ));
    }
    for i in 0..v.toks.len() {
        let t = v.toks[i];
        let Some(exp) = expected_payload(v, i) else { continue };
        let act = v.payload_str(i);
        if act.map(str::to_string) != exp {
            let text = v.text(i);
            let q = text.chars().next().unwrap_or(' ');
            let cls = match (&exp, act) {
                (Some(e), Some(a)) => {
                    if e.ends_with(a) && e.len() > a.len() {
                        format!("missing-leading:{:?}", e[..e.len() - a.len()].chars().next().unwrap_or(' '))
                    } else if t.ty == TokenType::HexStringLiteral {
                        "hex-value".to_string()
                    } else {
                        "value".to_string()
                    }
                }
                (Some(_), None) => "payload-missing".to_string(),
                (None, Some(_)) => {
                    if t.ty == TokenType::HexStringLiteral {
                        "decoded-malformed-hex".to_string()
                    } else {
                        "payload-unexpected".to_string()
                    }
                }
                (None, None) => unreachable!(),
            };
            f.push(Finding::new(
                "C07.payload",
                &format!("{:?}|{cls}|{}", t.ty, if q == '\'' { "sq" } else if q == '"' { "dq" } else { "ms" }),
                format!(
                    "token {i} {:?} text {:?}: payload {:?} expected {:?}",
                    t.ty,
                    text.chars().take(48).collect::<String>(),
                    act,
                    exp
                ),
            ));
            if f.len() >= 3 {
                break;
            }
        }
        // hex error presence
        if t.ty == TokenType::HexStringLiteral {
            let unterminated = false;
            if let Some((_, content)) = literal_content(v.text(i), t.ty, unterminated) {
                let valid = decode_hex(content).is_some();
                let has_err = v
                    .errors_naming(i)
                    .any(|e| e.error_kind() == ErrorKind::InvalidHexStringConstant);
                if valid == has_err {
                    f.push(Finding::new(
                        "C07.hexerror",
                        if valid { "error-on-valid" } else { "no-error-on-invalid" },
                        format!("hex literal {:?}: well-formed={valid} but InvalidHexStringConstant present={has_err}", v.text(i)),
                    ));
                }
            }
        }
    }
    f
}

/// true if the execution has at least one payload-bearing token (C07 non-triviality)
pub fn has_string_payload(v: &View) -> bool {
    v.toks.iter().any(|t| matches!(t.payload, Payload::StringLiteral(..)))
}
