//! Small deterministic PRNG (splitmix64 seeding + xoshiro256**). No external crates so that
//! the same stream is produced natively, under Miri and under sanitizers.

#[derive(Clone, Debug)]
pub struct Rng {
    s: [u64; 4],
}

fn splitmix(x: &mut u64) -> u64 {
    *x = x.wrapping_add(0x9E37_79B9_7F4A_7C15);
    let mut z = *x;
    z = (z ^ (z >> 30)).wrapping_mul(0xBF58_476D_1CE4_E5B9);
    z = (z ^ (z >> 27)).wrapping_mul(0x94D0_49BB_1331_11EB);
    z ^ (z >> 31)
}

impl Rng {
    pub fn new(seed: u64) -> Rng {
        let mut x = seed ^ 0x5A5A_1234_DEAD_BEEF;
        Rng {
            s: [
                splitmix(&mut x),
                splitmix(&mut x),
                splitmix(&mut x),
                splitmix(&mut x),
            ],
        }
    }

    /// Independent stream derived from (seed, a, b, c)
    pub fn derive(seed: u64, a: u64, b: u64, c: u64) -> Rng {
        let mut x = seed;
        let mut h = splitmix(&mut x);
        x ^= a.wrapping_mul(0x9E37_79B9_7F4A_7C15);
        h ^= splitmix(&mut x);
        x ^= b.wrapping_mul(0xC2B2_AE3D_27D4_EB4F);
        h ^= splitmix(&mut x).rotate_left(17);
        x ^= c.wrapping_mul(0x1656_67B1_9E37_79F9);
        h ^= splitmix(&mut x).rotate_left(41);
        Rng::new(h)
    }

    pub fn next_u64(&mut self) -> u64 {
        let r = self.s[1].wrapping_mul(5).rotate_left(7).wrapping_mul(9);
        let t = self.s[1] << 17;
        self.s[2] ^= self.s[0];
        self.s[3] ^= self.s[1];
        self.s[1] ^= self.s[2];
        self.s[0] ^= self.s[3];
        self.s[2] ^= t;
        self.s[3] = self.s[3].rotate_left(45);
        r
    }

    /// Uniform in 0..n (n > 0)
    pub fn below(&mut self, n: usize) -> usize {
        debug_assert!(n > 0);
        ((self.next_u64() >> 11) % (n as u64)) as usize
    }

    /// Uniform in lo..=hi
    pub fn range(&mut self, lo: usize, hi: usize) -> usize {
        lo + self.below(hi - lo + 1)
    }

    /// True with probability num/den
    pub fn chance(&mut self, num: usize, den: usize) -> bool {
        self.below(den) < num
    }

    pub fn pick<T: Copy>(&mut self, xs: &[T]) -> T {
        xs[self.below(xs.len())]
    }

    pub fn pick_ref<'a, T>(&mut self, xs: &'a [T]) -> &'a T {
        &xs[self.below(xs.len())]
    }

    pub fn f64(&mut self) -> f64 {
        (self.next_u64() >> 11) as f64 / (1u64 << 53) as f64
    }
}
