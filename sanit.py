"""Sanitizer layer (thorough tier): Miri, ThreadSanitizer, cachegrind instruction counts.

Every function returns (extra_coverage: dict, violations: list[(build, violation dict)],
inconclusive: list[str]). A tool that cannot run is *inconclusive*, never a violation.
"""
import os
import re
import subprocess
import time
from concurrent.futures import ThreadPoolExecutor


def _viol(sig, rule, msg, inputs=None):
    inputs = inputs or [""]
    return {"sig": sig, "rule": rule, "msg": msg, "count": 1, "inputs": inputs,
            "inputs_hex": [s.encode("utf-8").hex() for s in inputs]}


def parse_seq(text):
    rows = {}
    conc = None
    done = False
    order = []
    for line in text.splitlines():
        if line.startswith("CONCURRENT"):
            conc = line
        elif line.startswith("SEQ-DONE"):
            done = True
        else:
            parts = line.split(" ", 3)
            if len(parts) == 4 and parts[0].isdigit():
                key = (parts[0], parts[1])
                rows[key] = (parts[2], parts[3])
                order.append(key)
    return rows, conc, done


def miri(drv, prop, seed, nproc=12, per=40, many_seeds=4):
    """Run slices of the differential input sequence under Miri and compare with the native
    release build; any UB / data-race report is a violation."""
    t0 = time.time()
    extra, viol, inc = {}, [], []
    harness = os.path.join(drv.ROOT, "harness", "Cargo.toml")
    tdir = os.path.join(drv.TARGET, "miri")
    env = dict(drv.ENV)
    env["MIRIFLAGS"] = "-Zmiri-disable-isolation"
    base = ["cargo", "+nightly", "miri", "run", "--manifest-path", harness, "--target-dir", tdir,
            "--no-default-features", "--features", "hooks", "--"]
    bins = drv.build_many(["rel"])
    if not bins.get("rel"):
        return extra, viol, ["harness build failed"]

    def args(i, threads):
        a = ["seq", prop, "--seed", str(seed), "--from", str(i * per), "--n", str(per), "--maxlen", "600",
             "--threads", str(threads)]
        # the fixed reproducers go with slice 1 only; slice 0 is the short multi-schedule slice
        if i != 1:
            a.append("--no-fixed")
        if i == 0:
            a[a.index("--n") + 1] = "8"
        return a

    def one(i):
        threads = 3 if i % 3 == 0 else 1
        e = dict(env)
        if i == 0 and many_seeds:
            e["MIRIFLAGS"] += " -Zmiri-many-seeds=0..%d" % many_seeds
        try:
            p = subprocess.run(base + args(i, threads), env=e, stdout=subprocess.PIPE, stderr=subprocess.PIPE, text=True,
                               timeout=3 * 3600, errors="replace")
        except subprocess.TimeoutExpired:
            return i, None, "watchdog", threads
        return i, p, None, threads

    # warm-up alone (builds the sysroot and the crate), then all slices in parallel
    subprocess.run(base + ["seq", prop, "--n", "0", "--no-fixed"], env=env, stdout=subprocess.DEVNULL, stderr=subprocess.DEVNULL, timeout=3600)
    with ThreadPoolExecutor(max_workers=min(nproc, 14)) as ex:
        results = list(ex.map(one, range(nproc)))
    compared = 0
    ub_reports = 0
    concurrent_runs = 0
    for (i, p, err, threads) in results:
        if err:
            inc.append("miri slice %d: %s" % (i, err))
            continue
        text = p.stdout
        stderr = p.stderr or ""
        if "Undefined Behavior" in stderr or "data race" in stderr.lower():
            ub_reports += 1
            first = next((l for l in stderr.splitlines() if "Undefined Behavior" in l or "ata race" in l), "UB")
            where = next((l.strip() for l in stderr.splitlines() if "sas_lexer" in l or "sas-lexer" in l), "")
            viol.append(("miri", _viol("%s.miri|%s|%s" % (prop, re.sub(r"0x[0-9a-f]+|alloc\d+|\d+", "#", first)[:120],
                                                         re.sub(r":\d+(:\d+)?", "", where)[:100]),
                                       "%s.miri" % prop, (first + " @ " + where)[:400], ["(miri slice %d, seed %d)" % (i, seed)])))
            continue
        rows, conc, done = parse_seq(text)
        if not done:
            inc.append("miri slice %d did not finish: %s" % (i, stderr[-300:].replace("\n", " | ")))
            continue
        n = subprocess.run([bins["rel"]] + args(i, 1), env=drv.ENV, stdout=subprocess.PIPE, stderr=subprocess.DEVNULL, text=True)
        nrows, _, ndone = parse_seq(n.stdout)
        for key, val in rows.items():
            compared += 1
            if key not in nrows:
                viol.append(("miri", _viol("%s.miri-diff|generator" % prop, "%s.miri-diff" % prop,
                                           "input sequence differs between Miri and native run (slice %d)" % i)))
                break
            if nrows[key][0] != val[0]:
                viol.append(("miri-vs-rel", _viol("%s.build-diff|miri-vs-rel|%s/%s" % (prop, val[1].split(" ")[0], nrows[key][1].split(" ")[0]),
                                                  "%s.build-diff" % prop, "input #%s: Miri run gives %s, native release gives %s" % (key[0], val[1], nrows[key][1]))))
        if conc:
            concurrent_runs += 1
            if "mismatches=0" not in conc:
                viol.append(("miri", _viol("%s.schedule|miri" % prop, "%s.schedule" % prop, "concurrent calls under Miri disagree with the sequential baseline: " + conc)))
    extra["miri"] = {"processes": nproc, "inputs_compared_with_native": compared, "ub_or_race_reports": ub_reports,
                     "concurrent_slices": concurrent_runs, "scheduler_seeds_on_slice0": many_seeds, "wall_s": round(time.time() - t0, 1)}
    return extra, viol, inc


def memcheck(drv, prop, seed, nproc=16, per=6000, maxlen=6000):
    """Slices of the differential input sequence through the hooked release binary under valgrind
    memcheck (invalid reads/writes, use of uninitialised values, bad frees — in the crate's two
    unsafe lines and in the unsafe code of its dependencies: lexical-core number parsing, smol_str,
    phf, unicode-ident tables), each compared with the native run. Leak checking is off: the
    harness keeps its own tables alive. A tool failure is inconclusive."""
    t0 = time.time()
    extra, viol, inc = {}, [], []
    bins = drv.build_many(["rel"])
    if not bins.get("rel"):
        return extra, viol, ["harness build failed"]
    exe = bins["rel"]

    def args(i):
        a = ["seq", prop, "--seed", str(seed), "--from", str(i * per), "--n", str(per), "--maxlen", str(maxlen)]
        if i != 0:
            a.append("--no-fixed")
        return a

    def one(i):
        try:
            p = subprocess.run(["valgrind", "--tool=memcheck", "--error-exitcode=99", "--leak-check=no", "--quiet", "--num-callers=12", exe] + args(i),
                               env=drv.ENV, stdout=subprocess.PIPE, stderr=subprocess.PIPE, text=True, timeout=3600, errors="replace")
        except subprocess.TimeoutExpired:
            return i, None, "watchdog"
        except OSError as e:
            return i, None, "valgrind not runnable: %s" % e
        return i, p, None

    with ThreadPoolExecutor(max_workers=16) as ex:
        results = list(ex.map(one, range(nproc)))
    compared, reports = 0, 0
    for (i, p, err) in results:
        if err:
            inc.append("memcheck slice %d: %s" % (i, err))
            continue
        blocks = [b for b in re.split(r"\n(?===\d+== \n)", p.stderr or "") if re.search(r"==\d+== (Invalid|Conditional jump|Use of uninit|Mismatched|Source and dest|Argument|Syscall param|Process terminating)", b)]
        if p.returncode == 99 or blocks:
            reports += max(1, len(blocks))
            txt = blocks[0] if blocks else (p.stderr or "")
            first = next((l for l in txt.splitlines() if re.search(r"Invalid|Conditional|uninit|Mismatched|overlap|Argument|Syscall|terminating", l)), "memcheck error")
            first = re.sub(r"==\d+== ", "", first).strip()
            where = next((re.sub(r"==\d+==\s+(at|by) 0x[0-9A-F]+: ", "", l).strip() for l in txt.splitlines() if "sas_lexer" in l or "lexical" in l or "smol_str" in l), "")
            viol.append(("memcheck", _viol("%s.memcheck|%s|%s" % (prop, re.sub(r"\d+", "#", first)[:100], re.sub(r"\(.*$", "", where)[:100]),
                                           "%s.memcheck" % prop, (first + " @ " + where)[:400], ["(memcheck slice %d, seed %d)" % (i, seed)])))
            continue
        rows, _, done = parse_seq(p.stdout)
        if not done:
            inc.append("memcheck slice %d did not finish (exit %s): %s" % (i, p.returncode, (p.stderr or "")[-300:].replace("\n", " | ")))
            continue
        n = subprocess.run([exe] + args(i), env=drv.ENV, stdout=subprocess.PIPE, stderr=subprocess.DEVNULL, text=True)
        nrows, _, _ = parse_seq(n.stdout)
        for key, val in rows.items():
            compared += 1
            if key not in nrows:
                viol.append(("memcheck", _viol("%s.memcheck-diff|generator" % prop, "%s.memcheck-diff" % prop, "input sequence differs under valgrind (slice %d)" % i)))
                break
            if nrows[key][0] != val[0]:
                viol.append(("memcheck-vs-rel", _viol("%s.build-diff|memcheck-vs-rel|%s/%s" % (prop, val[1].split(" ")[0], nrows[key][1].split(" ")[0]),
                                                      "%s.build-diff" % prop, "input #%s: run under valgrind gives %s, native gives %s" % (key[0], val[1], nrows[key][1]))))
    extra["memcheck"] = {"tool": "valgrind --tool=memcheck on the hooked release build", "processes": nproc, "inputs_run_and_compared_with_native": compared,
                         "error_reports": reports, "wall_s": round(time.time() - t0, 1)}
    return extra, viol, inc


def tsan(drv, seed, scale=0.03):
    t0 = time.time()
    extra, viol, inc = {}, [], []
    path = drv.build("tsan")
    if not path:
        return extra, viol, ["ThreadSanitizer build failed (needs -Zbuild-std)"]
    logdir = os.path.join(drv.OUT, "tsan")
    os.makedirs(logdir, exist_ok=True)
    for f in os.listdir(logdir):
        os.remove(os.path.join(logdir, f))
    env = {"TSAN_OPTIONS": "halt_on_error=0 exitcode=66 log_path=%s/log" % logdir}
    s, err = drv.run_slv(path, ["run", "C19", "--tier", "quick", "--seed", str(seed), "--scale", str(scale)], 3 * 3600, env)
    if err:
        inc.append("tsan run: %s" % err)
    blocks = {}
    for f in os.listdir(logdir):
        txt = open(os.path.join(logdir, f), errors="replace").read()
        for blk in txt.split("==================")[1:]:
            if "WARNING: ThreadSanitizer" not in blk:
                continue
            kind = re.search(r"WARNING: ThreadSanitizer: ([^(\n]+)", blk)
            frames = [re.sub(r"\s+/.*$", "", l.strip()) for l in blk.splitlines() if "sas_lexer" in l or "slv::" in l]
            key = (kind.group(1).strip() if kind else "report") + "|" + (re.sub(r"#\d+ 0x[0-9a-f]+ in ", "", frames[0])[:120] if frames else "?")
            blocks[key] = blocks.get(key, 0) + 1
    for key, n in blocks.items():
        viol.append(("tsan", _viol("C19.tsan|%s" % key, "C19.tsan", "ThreadSanitizer report x%d: %s" % (n, key))))
    extra["tsan"] = {"report_blocks": sum(blocks.values()), "distinct_reports": len(blocks),
                     "concurrent_calls": ((s or {}).get("counters") or {}).get("concurrent_calls"),
                     "overlapping_call_pairs_with_thread0": ((s or {}).get("counters") or {}).get("overlapping_call_pairs_with_thread0"),
                     "executions": (s or {}).get("evaluations"), "wall_s": round(time.time() - t0, 1)}
    if s:
        for v in s.get("violations", []):
            viol.append(("tsan", v))
    return extra, viol, inc


def cachegrind_scaling(drv, n_small=4000, factor=4, step=1, deep=False, builds=("rel-plain",)):
    """Run the instruction-count scaling check on each of `builds` (rel-plain: default feature
    set without hooks; rel-ms: macro_sep configuration, hooks compiled in but never armed)."""
    extra, viol, inc = {}, [], []
    for b in builds:
        e, v, i = _cachegrind_scaling_one(drv, b, n_small, factor, step, deep)
        for k, val in e.items():
            extra["%s[%s]" % (k, b)] = val
        viol += v
        inc += i
    return extra, viol, inc


def _cachegrind_scaling_one(drv, build_name, n_small, factor, step, deep):
    """Instruction counts of the plain release build on p(n) and p(factor*n): deterministic and
    independent of machine load. Super-linear growth is a violation."""
    t0 = time.time()
    extra, viol, inc = {}, [], []
    bins = drv.build_many([build_name, "rel"])
    if not bins.get(build_name) or not bins.get("rel"):
        return extra, viol, ["harness build failed"]
    exe = bins[build_name]
    work = os.path.join(drv.OUT, "cg-" + build_name)
    os.makedirs(work, exist_ok=True)
    p = subprocess.run([bins["rel"], "family"], stdout=subprocess.PIPE, text=True, env=drv.ENV)
    try:
        nfam = int(p.stdout.strip())
    except ValueError:
        return extra, viol, ["cannot list families"]

    # the hooked twin of the measured build: a budget (logical steps) decides an endless loop, the
    # wall-clock limits below only ever make a run inconclusive
    pre_exe = exe if build_name.endswith("-ms") else bins["rel"]
    budget_hits = {}

    def irefs(path):
        try:
            pre = subprocess.run([pre_exe, "lexfile", path, "--budget"], stdout=subprocess.PIPE, stderr=subprocess.PIPE, text=True, env=drv.ENV, timeout=600)
        except subprocess.TimeoutExpired:
            return None
        if pre.returncode == 4:
            budget_hits[path] = pre.stdout.strip()
            return None
        try:
            q = subprocess.run(["valgrind", "--tool=cachegrind", "--cache-sim=no", "--cachegrind-out-file=/dev/null", exe, "lexfile", path],
                               stdout=subprocess.PIPE, stderr=subprocess.PIPE, text=True, env=drv.ENV, timeout=3600)
        except subprocess.TimeoutExpired:
            return None
        m = re.search(r"I\s+refs:\s+([\d,]+)", q.stderr)
        if q.returncode != 0 or not m:
            return None
        return int(m.group(1).replace(",", ""))

    empty = os.path.join(work, "empty.sas")
    open(empty, "w").close()
    base = irefs(empty)
    if base is None:
        return extra, viol, ["cachegrind did not run"]

    def fam(i):
        out = []
        name = "?"
        for n in (n_small, n_small * factor) + ((n_small * factor * factor,) if deep else ()):
            path = os.path.join(work, "f%d_%d.sas" % (i, n))
            q = subprocess.run([bins["rel"], "family", "--idx", str(i), "--n", str(n), "--out", path], stdout=subprocess.PIPE, text=True, env=drv.ENV)
            name = q.stdout.strip()
            size = os.path.getsize(path)
            if size > (3 << 20):
                os.remove(path)
                break
            out.append((n, size, irefs(path)))
            if path in budget_hits:
                hit = budget_hits.pop(path).split()
                counter = hit[1] if len(hit) > 1 else "?"
                viol.append((build_name, _viol("C01.budget|%s|family:%s" % (counter, name), "C01.budget",
                                                "work counter %s exceeded its linear budget on family %s, n=%d (%d bytes): %s" % (counter, name, n, size, " ".join(hit)),
                                                ["family %s n=%d" % (name, n)])))
            os.remove(path)
        return i, name, out

    with ThreadPoolExecutor(max_workers=16) as ex:
        res = list(ex.map(fam, range(0, nfam, step)))
    worst = 0.0
    table = []
    for i, name, out in res:
        if any(x[2] is None for x in out):
            if not any(v[1]["sig"].endswith("family:%s" % name) for v in viol):
                inc.append("cachegrind failed or timed out on family %s" % name)
            continue
        for (n1, s1, i1), (n2, s2, i2) in zip(out, out[1:]):
            a, b = max(i1 - base, 1), max(i2 - base, 1)
            ratio = b / a
            growth = s2 / max(s1, 1)
            worst = max(worst, ratio / growth)
            table.append({"family": name, "bytes": [s1, s2], "instructions": [a, b], "ratio": round(ratio, 2)})
            if ratio > growth * 1.5:
                viol.append((build_name, _viol("C01.superlinear|instructions|family:%s" % name, "C01.superlinear",
                                                "executed instructions grew %.1fx when the input grew %.1fx (family %s, %d -> %d bytes)" % (ratio, growth, name, s1, s2),
                                                ["family %s" % name])))
    extra["instruction_scaling"] = {"tool": "valgrind --tool=cachegrind (I refs, startup baseline subtracted)", "families": len(table),
                                    "worst_ratio_over_input_growth": round(worst, 3), "samples": sorted(table, key=lambda t: -t["ratio"])[:6],
                                    "wall_s": round(time.time() - t0, 1)}
    return extra, viol, inc
