#!/bin/bash
# usage: confirm_batch.sh "<dir> <name>" ...   (confirmation only; does not touch /repo's working tree)
for m in "$@"; do set -- $m; python3 /verif/tools/eval_mutant.py /tmp/mut/$1 $2 --confirm-only 2>&1 | tail -1 | python3 -c "
import sys,json
d=json.loads(sys.stdin.read()); print(d['name'], 'confirmed=',d['confirmed'], d.get('why',''), d.get('suite_with_patch','')[-40:])"; done
