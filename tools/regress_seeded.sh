#!/bin/bash
# Re-run, for every seeded change, the quick check(s) recorded as catching it, against the current
# checks and the current /repo. Usage: regress_seeded.sh [name-prefix ...]  -> out/regress.log
cd /verif
log=out/regress.log
: > $log
for d in seeded/*/; do
  name=$(basename $d)
  if [ $# -gt 0 ]; then ok=0; for p in "$@"; do case $name in $p*) ok=1;; esac; done; [ $ok = 1 ] || continue; fi
  if [ -n "$(git -C /repo status --porcelain)" ]; then echo "ABORT: /repo not clean before $name" >> $log; exit 2; fi
  checks=$(python3 -c "
import json,sys
m=json.load(open('$d/meta.json'))
own=m['property']
det=m.get('detected_by') or []
print(own if own in det or not det else det[0])")
  if ! git -C /repo apply /verif/${d}patch.diff 2>/dev/null; then echo "$name NOAPPLY" >> $log; continue; fi
  VERIF_SEED=${VERIF_SEED:-7} ./check $checks quick > out/regress-$name.log 2>&1
  rc=$?
  git -C /repo checkout -- . ; git -C /repo clean -fdq crates src
  echo "$name check=$checks rc=$rc $(grep -m1 'signature:' out/regress-$name.log | cut -c1-120)" >> $log
done
echo REGRESSDONE >> $log
