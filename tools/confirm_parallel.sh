#!/bin/bash
# usage: confirm_parallel.sh <lanes> name...   (names = dirs under /tmp/mut; confirmation only, separate target dir per lane)
lanes=$1; shift
i=0
for n in "$@"; do
  lane=$((i % lanes)); i=$((i+1))
  echo "$n" >> /tmp/ev-lane-$lane.list
done
for l in $(seq 0 $((lanes-1))); do
  ( [ -f /tmp/ev-lane-$l.list ] && while read n; do
      EV_DIR=/tmp/ev$l python3 /verif/tools/eval_mutant.py /tmp/mut/$n $n --confirm-only 2>&1 | tail -1 | python3 -c "
import sys,json
d=json.loads(sys.stdin.read()); print(d['name'], 'confirmed=',d['confirmed'], d.get('why',''), d.get('suite_with_patch','')[-60:], d.get('demo_with_patch'), d.get('demo_without_patch'))"
    done < /tmp/ev-lane-$l.list; rm -f /tmp/ev-lane-$l.list ) &
done
wait
