#!/bin/bash
# usage: detect_batch.sh [--checks C01,C02] "<dir> <name>" ...
CH=""
if [ "$1" = "--checks" ]; then CH="--checks $2"; shift; shift; fi
for m in "$@"; do set -- $m; python3 /verif/tools/eval_mutant.py /tmp/mut/$1 $2 --no-confirm $CH 2>&1 | tail -1 | python3 -c "
import sys,json
d=json.loads(sys.stdin.read()); print(d['name'], 'confirmed=',d.get('confirmed'), 'detected_by=',d['detected_by'], {k:v['signatures'][:2] for k,v in d['detection'].items()})"; done
