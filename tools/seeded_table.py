#!/usr/bin/env python3
"""Print the markdown table of seeded changes (DESIGN.md §9) from /verif/seeded/*/meta.json."""
import glob
import json
import os

rows = []
for d in sorted(glob.glob("/verif/seeded/*")):
    m = json.load(open(os.path.join(d, "meta.json")))
    name = os.path.basename(d)
    sigs = []
    for c, r in (m.get("checks_run") or {}).items():
        if r.get("exit") == 1 and r.get("signatures"):
            sigs.append("%s: `%s`" % (c, r["signatures"][0].replace("|", "\\|")[:90]))
    needs = (m.get("needs") or "").replace("\n", " ").replace("|", "\\|")
    if len(needs) > 230:
        needs = needs[:227] + "…"
    rows.append("| `%s` | %s | %s | %s |" % (name, needs, ", ".join(m.get("detected_by") or []) or "**missed**", "<br>".join(sigs[:2])))
print("| change (`seeded/<name>/`) | needs, in order to manifest | caught by (quick) | first signature |")
print("|---|---|---|---|")
print("\n".join(rows))
