#!/bin/bash
# A second lane for running the checks against a *scratch worktree* of /repo (seeded changes), so
# that /repo itself stays free for sweeps on the unchanged tree. Not used by any registered check.
#   lane.sh setup            copy /verif (committed + working files, no build output) to /tmp/mutlane/verif,
#                            add worktree /tmp/mutlane/repo at /repo's HEAD
#   lane.sh sync             refresh the copy of /verif (keeps its target dir)
#   lane.sh detect <patch> <check>[,<check>...]   apply, run quick checks, undo; prints rc + first signatures
#   lane.sh teardown
L=/tmp/mutlane
case "$1" in
  setup|sync)
    mkdir -p $L/verif
    rsync -a --delete --exclude target --exclude out --exclude .git --exclude evidence /verif/ $L/verif/
    mkdir -p $L/verif/evidence $L/verif/out
    sed -i "s#path = \"/repo/crates/sas-lexer\"#path = \"$L/repo/crates/sas-lexer\"#" $L/verif/harness/Cargo.toml
    if [ "$1" = setup ]; then
      git -C /repo worktree remove --force $L/repo 2>/dev/null
      git -C /repo worktree add --detach $L/repo HEAD >/dev/null 2>&1
    fi
    ;;
  detect)
    patch=$2; checks=$3
    cd $L/repo && git checkout -q --detach $(git -C /repo rev-parse HEAD) && git checkout -- . && git apply "$patch" || { echo "NOAPPLY $patch"; exit 2; }
    for c in ${checks//,/ }; do
      VERIF_REPO=$L/repo VERIF_SEED=${VERIF_SEED:-1} $L/verif/check $c quick > $L/verif/out/det-$c.log 2>&1
      rc=$?
      echo "$(basename $(dirname $patch)) $c rc=$rc $(grep 'signature:' $L/verif/out/det-$c.log | head -3 | tr '\n' ' ')"
    done
    cd $L/repo && git checkout -- . && git clean -fdq crates src
    ;;
  teardown)
    git -C /repo worktree remove --force $L/repo; rm -rf $L
    ;;
esac
