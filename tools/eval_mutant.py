#!/usr/bin/env python3
"""Confirm a seeded change and run the checks against it.

usage: eval_mutant.py <mutant dir with patch.diff/demo.rs/meta.json> <name> [--checks C01,C02,...] [--no-confirm]

1. confirm (scratch worktree under /tmp/ev): patch applies, existing test-suite passes with it,
   the demonstration fails with it and passes without it;
2. detect: apply the patch to /repo, run the listed quick checks, undo it straight afterwards.
Writes /verif/seeded/<name>/{patch.diff, demo.*, meta.json} when confirmed.
"""
import json
import os
import shutil
import subprocess
import sys

REPO = "/repo"
EV = os.environ.get("EV_DIR", "/tmp/ev")
ALL = ["C%02d" % i for i in range(1, 21)]


def sh(cmd, cwd=None, env=None, timeout=3600):
    e = dict(os.environ)
    e.update({"CARGO_NET_OFFLINE": "true", "CARGO_TARGET_DIR": EV + "/target"})
    if env:
        e.update(env)
    p = subprocess.run(cmd, cwd=cwd, env=e, shell=isinstance(cmd, str), stdout=subprocess.PIPE, stderr=subprocess.STDOUT, text=True, timeout=timeout)
    return p.returncode, p.stdout


def main():
    src = sys.argv[1]
    name = sys.argv[2]
    checks = None
    confirm = True
    detect = True
    for i, a in enumerate(sys.argv):
        if a == "--confirm-only":
            detect = False
        if a == "--checks":
            checks = sys.argv[i + 1].split(",")
        if a == "--no-confirm":
            confirm = False
    meta = json.load(open(os.path.join(src, "meta.json")))
    prop = meta.get("property", "C00")
    patch = os.path.join(src, "patch.diff")
    demo = None
    for f in ("demo.rs", "demo.py", "demo.sh"):
        if os.path.exists(os.path.join(src, f)):
            demo = f
            break
    result = {"name": name, "property": prop, "confirmed": None, "ran": []}
    if confirm:
        wt = os.path.join(EV, name)
        os.makedirs(EV, exist_ok=True)
        subprocess.run(["git", "-C", REPO, "worktree", "remove", "--force", wt], stdout=subprocess.DEVNULL, stderr=subprocess.DEVNULL)
        rc, out = sh(["git", "-C", REPO, "worktree", "add", "--detach", wt, "HEAD"])
        try:
            rc, out = sh(["git", "apply", patch], cwd=wt)
            if rc != 0:
                result["confirmed"] = False
                result["why"] = "patch does not apply: " + out[-300:]
                print(json.dumps(result))
                return 1
            rc, out = sh("cargo nextest run --workspace --no-fail-fast --offline 2>&1 | tail -3", cwd=wt)
            suite_ok = "2152 passed" in out and "failed" not in out.split("Summary")[-1]
            result["suite_with_patch"] = out.strip().splitlines()[-1] if out.strip() else ""
            demo_cmd = meta.get("demo_cmd", "").split("#")[0]
            if demo == "demo.rs":
                os.makedirs(os.path.join(wt, "crates/sas-lexer/tests"), exist_ok=True)
                shutil.copy(os.path.join(src, demo), os.path.join(wt, "crates/sas-lexer/tests/demo.rs"))
                extra = ""
                if "--release" in demo_cmd:
                    extra += " --release"
                if "macro_sep" in demo_cmd:
                    extra += " --features macro_sep"
                cmd = "cargo test -p sas-lexer --test demo --offline%s 2>&1 | tail -5" % extra
                rc, out_with = sh(cmd, cwd=wt)
                fails_with = "test result: FAILED" in out_with or "panicked" in out_with or "(signal:" in out_with
                sh(["git", "apply", "-R", patch], cwd=wt)
                rc, out_without = sh(cmd, cwd=wt)
                passes_without = "test result: ok" in out_without
                result["demo_with_patch"] = out_with.strip().splitlines()[-1:] 
                result["demo_without_patch"] = out_without.strip().splitlines()[-1:]
                result["confirmed"] = bool(suite_ok and fails_with and passes_without)
                result["ran"].append(cmd)
            else:
                result["confirmed"] = None
                result["why"] = "non-Rust demo: confirm by hand (%s)" % demo
            result["suite_ok"] = suite_ok
        finally:
            subprocess.run(["git", "-C", REPO, "worktree", "remove", "--force", wt], stdout=subprocess.DEVNULL, stderr=subprocess.DEVNULL)
    os.makedirs("/tmp/ev/results", exist_ok=True)
    cpath = os.path.join("/tmp/ev/results", name + ".json")
    if confirm:
        json.dump(result, open(cpath, "w"))
    elif os.path.exists(cpath):
        prev = json.load(open(cpath))
        for k in ("confirmed", "suite_ok", "suite_with_patch", "demo_with_patch", "demo_without_patch", "ran", "why"):
            if k in prev:
                result[k] = prev[k]
    if not detect:
        print(json.dumps(result, ensure_ascii=False))
        return 0
    # detection
    checks = checks or [prop]
    det = {}
    rc, out = sh(["git", "-C", REPO, "status", "--porcelain"])
    if out.strip():
        print("refusing: /repo is not clean:", out)
        return 2
    rc, out = sh(["git", "-C", REPO, "apply", patch])
    if rc != 0:
        print("patch does not apply to /repo:", out)
        return 2
    try:
        for c in checks:
            e = {"VERIF_SEED": os.environ.get("VERIF_SEED", "1")}
            p = subprocess.run(["/verif/check", c, "quick"], cwd="/verif", stdout=subprocess.PIPE, stderr=subprocess.STDOUT, text=True, env={**os.environ, **e})
            sigs = [l.strip()[len("signature: "):] for l in p.stdout.splitlines() if l.strip().startswith("signature: ")]
            det[c] = {"exit": p.returncode, "signatures": sigs[:6]}
    finally:
        subprocess.run(["git", "-C", REPO, "checkout", "--", "."], check=False)
        subprocess.run(["git", "-C", REPO, "clean", "-fdq", "crates", "src"], check=False)
    result["detected_by"] = [c for c, d in det.items() if d["exit"] == 1]
    result["detection"] = det
    out_dir = os.path.join("/verif/seeded", name)
    if result.get("confirmed"):
        os.makedirs(out_dir, exist_ok=True)
        shutil.copy(patch, os.path.join(out_dir, "patch.diff"))
        if demo:
            shutil.copy(os.path.join(src, demo), os.path.join(out_dir, demo))
        meta_out = {"property": prop, "summary": meta.get("summary"), "mechanism": meta.get("mechanism"), "needs": meta.get("needs"),
                    "failing_input": meta.get("failing_input"), "demo_cmd": meta.get("demo_cmd"),
                    "confirmed": {"suite_passes_with_change": result.get("suite_ok"), "demo_fails_with_change": True if result.get("confirmed") else None,
                                  "demo_passes_without_change": True if result.get("confirmed") else None, "commands": result["ran"] + ["cargo nextest run --workspace --no-fail-fast --offline"]},
                    "checks_run": {c: d for c, d in det.items()}, "detected_by": result["detected_by"]}
        json.dump(meta_out, open(os.path.join(out_dir, "meta.json"), "w"), indent=1, ensure_ascii=False)
    print(json.dumps(result, ensure_ascii=False))
    return 0


if __name__ == "__main__":
    sys.exit(main())
