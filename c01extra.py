"""Extras for C01: instruction-count scaling under cachegrind, valgrind memcheck slices, and (thorough) a Miri shard."""
import sanit


def run(drv, seed):
    extra, viol, inc = {}, [], []
    for fn in (lambda: sanit.cachegrind_scaling(drv, n_small=4000, factor=4, deep=True, builds=("rel-plain", "rel-ms")), lambda: sanit.memcheck(drv, "C19", seed, nproc=16, per=8000),
               lambda: sanit.miri(drv, "C19", seed, nproc=8, per=30, many_seeds=0)):
        e, v, i = fn()
        extra.update(e)
        viol += [(b, dict(x, sig=x["sig"].replace("C19.", "C01."), rule=x["rule"].replace("C19.", "C01."))) for b, x in v]
        inc += i
    return extra, viol, inc


def quick(drv, seed):
    """Quick tier: instruction-count scaling of all families on the macro_sep release build
    (a superset of the default configuration's code paths); deterministic, ~10 s."""
    extra, viol, inc = sanit.cachegrind_scaling(drv, n_small=1000, factor=4, step=1, builds=("rel-ms",))
    # memory-error monitor on a short slice of the cross-build input sequence (~10 s)
    e, v, i = sanit.memcheck(drv, "C19", seed, nproc=16, per=500)
    extra.update(e)
    viol += [(b, dict(x, sig=x["sig"].replace("C19.", "C01."), rule=x["rule"].replace("C19.", "C01."))) for b, x in v]
    return extra, viol, inc + i
