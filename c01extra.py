"""Thorough-only extras for C01 (instruction-count scaling under cachegrind, Miri shard).
Filled in later; prepare() is a no-op until then."""


def prepare(root, env):
    return None
