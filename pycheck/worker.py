"""C20 worker: runs inside /usr/bin/python3 (the interpreter PyO3 was built against).

usage: worker.py <dir with _sas_lexer_rust.so> <inputs file> <python package dir> <out json>

Reads length-prefixed inputs (u32 len, u8 kind, bytes; kind 1 = well-formed program that must
return), calls the extension, decodes the msgpack payload with an independent reader and checks
the positional contract against the field order declared in token.py / error.py / lexer.py.
"""
import ast
import json
import struct
import sys
import time
import unicodedata  # noqa: F401  (kept: str.isspace semantics documented below)

so_dir, inputs_path, pkg_dir, out_path = sys.argv[1:5]
sys.path.insert(0, so_dir)
import _sas_lexer_rust  # noqa: E402


# ----------------------------------------------------------------------------------------------
# independent msgpack reader
class MsgpackError(Exception):
    pass


def unpack(buf):
    pos = 0

    def rd(n):
        nonlocal pos
        if pos + n > len(buf):
            raise MsgpackError("truncated")
        b = buf[pos:pos + n]
        pos += n
        return b

    def one():
        t = rd(1)[0]
        if t <= 0x7F:
            return t
        if t >= 0xE0:
            return t - 0x100
        if 0x90 <= t <= 0x9F:
            return [one() for _ in range(t & 0x0F)]
        if 0xA0 <= t <= 0xBF:
            return rd(t & 0x1F).decode("utf-8")
        if 0x80 <= t <= 0x8F:
            return {"__map__": [(one(), one()) for _ in range(t & 0x0F)]}
        if t == 0xC0:
            return None
        if t == 0xC2:
            return False
        if t == 0xC3:
            return True
        if t == 0xC4:
            return bytes(rd(rd(1)[0]))
        if t == 0xC5:
            return bytes(rd(struct.unpack(">H", rd(2))[0]))
        if t == 0xC6:
            return bytes(rd(struct.unpack(">I", rd(4))[0]))
        if t == 0xCA:
            return struct.unpack(">f", rd(4))[0]
        if t == 0xCB:
            return struct.unpack(">d", rd(8))[0]
        if t == 0xCC:
            return rd(1)[0]
        if t == 0xCD:
            return struct.unpack(">H", rd(2))[0]
        if t == 0xCE:
            return struct.unpack(">I", rd(4))[0]
        if t == 0xCF:
            return struct.unpack(">Q", rd(8))[0]
        if t == 0xD0:
            return struct.unpack(">b", rd(1))[0]
        if t == 0xD1:
            return struct.unpack(">h", rd(2))[0]
        if t == 0xD2:
            return struct.unpack(">i", rd(4))[0]
        if t == 0xD3:
            return struct.unpack(">q", rd(8))[0]
        if t == 0xD9:
            return rd(rd(1)[0]).decode("utf-8")
        if t == 0xDA:
            return rd(struct.unpack(">H", rd(2))[0]).decode("utf-8")
        if t == 0xDB:
            return rd(struct.unpack(">I", rd(4))[0]).decode("utf-8")
        if t == 0xDC:
            return [one() for _ in range(struct.unpack(">H", rd(2))[0])]
        if t == 0xDD:
            return [one() for _ in range(struct.unpack(">I", rd(4))[0])]
        if t == 0xDE:
            return {"__map__": [(one(), one()) for _ in range(struct.unpack(">H", rd(2))[0])]}
        if t == 0xDF:
            return {"__map__": [(one(), one()) for _ in range(struct.unpack(">I", rd(4))[0])]}
        raise MsgpackError("unsupported type byte 0x%02x" % t)

    v = one()
    if pos != len(buf):
        raise MsgpackError("trailing bytes")
    return v


# ----------------------------------------------------------------------------------------------
# declared field order and enums, parsed from the working tree's Python package
def struct_fields(path, cls):
    tree = ast.parse(open(path, encoding="utf-8").read())
    for node in tree.body:
        if isinstance(node, ast.ClassDef) and node.name == cls:
            return [(s.target.id, ast.unparse(s.annotation)) for s in node.body if isinstance(s, ast.AnnAssign)]
    raise SystemExit("class %s not found in %s" % (cls, path))


def enum_members(path, cls):
    tree = ast.parse(open(path, encoding="utf-8").read())
    for node in tree.body:
        if isinstance(node, ast.ClassDef) and node.name == cls:
            out = {}
            for s in node.body:
                if isinstance(s, ast.Assign) and isinstance(s.value, ast.Constant):
                    out[s.value.value] = s.targets[0].id
            return out
    raise SystemExit("enum %s not found in %s" % (cls, path))


def decoder_shape(path):
    src = open(path, encoding="utf-8").read()
    tree = ast.parse(src)
    for node in ast.walk(tree):
        if isinstance(node, ast.Call) and getattr(node.func, "id", "") == "Decoder":
            return ast.unparse(node.args[0])
    return ""


TOKEN_FIELDS = struct_fields(pkg_dir + "/token.py", "Token")
ERROR_FIELDS = struct_fields(pkg_dir + "/error.py", "Error")
TOKEN_TYPES = enum_members(pkg_dir + "/token_type.py", "TokenType")
CHANNELS = enum_members(pkg_dir + "/token_channel.py", "TokenChannel")
ERROR_KINDS = enum_members(pkg_dir + "/error_kind.py", "ErrorKind")
DECODER = decoder_shape(pkg_dir + "/lexer.py")
TF = [n for n, _ in TOKEN_FIELDS]
EF = [n for n, _ in ERROR_FIELDS]

findings = {}  # sig -> {count, msg, input}
counters = {}


def count(k, n=1):
    counters[k] = counters.get(k, 0) + n


def finding(sig, msg, src):
    e = findings.setdefault(sig, {"count": 0, "msg": msg, "input": src})
    e["count"] += 1
    if len(src) < len(e["input"]):
        e["input"] = src
        e["msg"] = msg


def type_ok(v, ann):
    ann = ann.replace(" ", "")
    if ann in ("int", "TokenChannel", "TokenType", "ErrorKind"):
        return isinstance(v, int) and not isinstance(v, bool)
    if ann == "int|None":
        return v is None or (isinstance(v, int) and not isinstance(v, bool))
    if ann == "int|float|tuple[int,int]|None":
        if v is None or (isinstance(v, (int, float)) and not isinstance(v, bool)):
            return True
        return isinstance(v, list) and len(v) == 2 and all(isinstance(x, int) for x in v)
    return True


def undouble(s, q):
    return s.replace(q + q, q)


def unpercent(s):
    out = []
    i = 0
    while i < len(s):
        if s[i] == "%" and i + 1 < len(s) and s[i + 1] in "'\"%()":
            out.append(s[i + 1])
            i += 2
        else:
            out.append(s[i])
            i += 1
    return "".join(out)


def decode_hex(content):
    c = content.replace(",", "")
    if len(c) % 2 or any(ch not in "0123456789abcdefABCDEF" for ch in c):
        return None
    return "".join(chr(int(c[i:i + 2], 16)) for i in range(0, len(c), 2))


LIT_SUFFIX = {"STRING_LITERAL": 0, "BIT_TESTING_LITERAL": 1, "DATE_LITERAL": 1, "DATE_TIME_LITERAL": 2,
              "NAME_LITERAL": 1, "TIME_LITERAL": 1, "HEX_STRING_LITERAL": 1}


def expected_payload(tname, text, unterminated):
    """None = not judged; (True, value) = payload expected; (False, None) = no payload expected."""
    if tname in LIT_SUFFIX:
        if not text or text[0] not in "'\"":
            return None
        q = text[0]
        if unterminated:
            content = text[1:]
        else:
            sl = LIT_SUFFIX[tname]
            if len(text) < 2 + sl or text[len(text) - sl - 1] != q:
                return None
            content = text[1:len(text) - sl - 1]
        if tname == "HEX_STRING_LITERAL":
            d = decode_hex(content)
            if d is not None:
                return (True, d)
        return (True, undouble(content, q)) if (q + q) in content else (False, None)
    if tname == "STRING_EXPR_TEXT":
        return (True, undouble(text, '"')) if '""' in text else (False, None)
    return None


def check(src, kind):
    count("inputs")
    try:
        raw = _sas_lexer_rust._lex_program_from_str(src)
    except BaseException as ex:  # PanicException derives from BaseException
        count("exceptions")
        if type(ex).__name__ == "PanicException":
            # a panic comes from Rust code; in the binding that is the linked, published lexer
            # crate (lib.rs itself has no panicking path) - outside this property by its quantifier
            count("panics_outside_property")
            return
        if kind == 1:
            finding("C20.must-return|%s" % type(ex).__name__, "well-formed program did not return: %s" % str(ex)[:200], src)
        return
    count("returned")
    try:
        top = unpack(bytes(raw))
    except (MsgpackError, UnicodeDecodeError) as ex:
        finding("C20.msgpack|undecodable", "payload is not decodable msgpack: %s" % ex, src)
        return
    if not (isinstance(top, list) and len(top) == 3 and isinstance(top[0], list) and isinstance(top[1], list)
            and isinstance(top[2], (bytes, bytearray))):
        finding("C20.shape|top-level", "top level is not (tokens, errors, bytes)", src)
        return
    toks, errs, lit = top
    nontrivial = bool(errs) or any(ord(c) > 127 for c in src)
    if any(0xD800 <= ord(c) <= 0xDFFF for c in src):
        count("results_for_non_unicode_str")
    n = len(src)
    # position tables on code points
    line_at = [1] * (n + 1)
    line_start = [0] * (n + 1)
    ln, ls = 1, (1 if src.startswith("﻿") else 0)
    for i, ch in enumerate(src):
        line_at[i] = ln
        line_start[i] = ls if not (i == 0 and src.startswith("﻿")) else 1
        if ch == "\n":
            ln += 1
            ls = i + 1
    line_at[n] = ln
    line_start[n] = ls
    prev_stop = 1 if src.startswith("﻿") else 0
    lit_cursor = 0
    err_names = {}
    err_recs = []
    for e in errs:
        if not (isinstance(e, list) and len(e) == len(EF)):
            finding("C20.shape|error-arity", "error record is not a %d-array: %r" % (len(EF), e), src)
            return
        rec = dict(zip(EF, e))
        for (name, ann) in ERROR_FIELDS:
            if not type_ok(rec[name], ann):
                finding("C20.shape|error-field-type|%s" % name, "error field %s has value %r" % (name, rec[name]), src)
                return
        if rec["error_kind"] not in ERROR_KINDS:
            finding("C20.enum|error_kind", "error_kind %r is not a member of ErrorKind" % rec["error_kind"], src)
        if rec["last_token_index"] is not None:
            err_names.setdefault(rec["last_token_index"], []).append(ERROR_KINDS.get(rec["error_kind"], "?"))
        err_recs.append(rec)
    for i, t in enumerate(toks):
        if not (isinstance(t, list) and len(t) == len(TF)):
            finding("C20.shape|token-arity", "token record is not a %d-array: %r" % (len(TF), t), src)
            return
        rec = dict(zip(TF, t))
        for (name, ann) in TOKEN_FIELDS:
            if not type_ok(rec[name], ann):
                finding("C20.shape|token-field-type|%s" % name, "token field %s has value %r" % (name, rec[name]), src)
                return
        if rec["channel"] not in CHANNELS:
            finding("C20.enum|channel", "channel %r is not a member of TokenChannel" % rec["channel"], src)
        if rec["token_type"] not in TOKEN_TYPES:
            finding("C20.enum|token_type", "token_type %r is not a member of TokenType" % rec["token_type"], src)
        if rec["token_index"] != i:
            finding("C20.index", "token %d has token_index %r" % (i, rec["token_index"]), src)
        a, b = rec["start"], rec["stop"]
        if a != prev_stop or b < a or b > n:
            finding("C20.tiling", "token %d [%r,%r) does not continue at %d (len %d)" % (i, a, b, prev_stop, n), src)
            return
        prev_stop = b
        tname = TOKEN_TYPES.get(rec["token_type"], "?")
        exp_start = (line_at[a], a - line_start[a])
        if a == b:
            exp_end = exp_start
        else:
            q = b - 1
            exp_end = (line_at[q], q - line_start[q] + 1)
        if (rec["line"], rec["column"]) != exp_start:
            finding("C20.linecol|start|%s" % ("after-datalines" if any(TOKEN_TYPES.get(x[1]) == "DATALINES_DATA" for x in toks[max(0, i - 3):i + 1]) else "other"),
                    "token %d %s start (%r,%r) expected %r" % (i, tname, rec["line"], rec["column"], exp_start), src)
            return
        if (rec["end_line"], rec["end_column"]) != exp_end:
            finding("C20.linecol|end|%s" % ("datalines" if any(TOKEN_TYPES.get(x[1]) in ("DATALINES_DATA", "DATALINES_START") for x in toks[max(0, i - 3):i + 2]) else "other"),
                    "token %d %s end (%r,%r) expected %r" % (i, tname, rec["end_line"], rec["end_column"], exp_end), src)
            return
        p = rec["payload"]
        text = src[a:b]
        if isinstance(p, list):
            nontrivial = True
            lo, hi = p
            if not (lit_cursor == lo <= hi <= len(lit)):
                finding("C20.payload-range", "token %d payload range %r with cursor %d, buffer %d" % (i, p, lit_cursor, len(lit)), src)
                return
            lit_cursor = hi
            try:
                val = bytes(lit[lo:hi]).decode("utf-8")
            except UnicodeDecodeError:
                finding("C20.payload-utf8", "token %d payload is not UTF-8" % i, src)
                return
            count("payloads_checked")
        else:
            val = None
        # numeric payloads carry the value written in the text (when the text is a plain literal
        # without a numeric-literal error): a lossy integer/float encoding would show here
        bad_num = any(k in ("INVALID_NUMERIC_LITERAL", "UNTERMINATED_HEX_NUMERIC_LITERAL") for k in err_names.get(i, []))
        if tname == "INTEGER_LITERAL" and not bad_num:
            want_int = None
            if text.isdigit() and text.isascii():
                want_int = int(text)
            elif text[-1:] in ("x", "X") and text[:1].isdigit() and all(c in "0123456789abcdefABCDEF" for c in text[:-1]):
                want_int = int(text[:-1], 16)
            if want_int is not None and want_int < 2 ** 64:
                count("integer_payloads_checked")
                if not (isinstance(p, int) and not isinstance(p, bool) and p == want_int):
                    finding("C20.payload-number|integer", "token %d %r payload %r expected %d" % (i, text, p, want_int), src)
        elif tname in ("FLOAT_LITERAL", "FLOAT_EXPONENT_LITERAL") and not bad_num and text.isascii():
            try:
                want_f = float(text)
            except ValueError:
                want_f = None
            if want_f is not None:
                count("float_payloads_checked")
                # msgpack may carry an integral float as float64 only; an int here is a contract break
                if not (isinstance(p, float) and (p == want_f)):
                    finding("C20.payload-number|float", "token %d %r payload %r expected %r" % (i, text, p, want_f), src)
        elif tname == "MACRO_VAR_RESOLVE":
            if not (isinstance(p, int) and text == "&" * (2 ** p if p < 32 else 1)):
                finding("C20.payload-number|resolve", "token %d %r payload %r" % (i, text, p), src)
        unterminated = "UNTERMINATED_STRING_LITERAL" in err_names.get(i, [])
        exp = expected_payload(tname, text, unterminated)
        if tname == "MACRO_STRING" and val is not None:
            exp = (True, unpercent(text))
        if exp is not None:
            want = exp[1] if exp[0] else None
            if want != val:
                if val is not None and want is not None and want.endswith(val) and len(want) > len(val):
                    cls = "missing-leading-char"
                elif tname == "HEX_STRING_LITERAL":
                    cls = "hex"
                elif val is None:
                    cls = "payload-missing"
                else:
                    cls = "value"
                finding("C20.payload-text|%s|%s" % ("MACRO_STRING" if tname == "MACRO_STRING" else "quoted", cls),
                        "token %d %s text %r payload %r expected %r" % (i, tname, text[:40], val, want), src)
        count("tokens_checked")
    for rec in err_recs:
        co = rec["at_char_offset"]
        if not (0 <= co <= n):
            finding("C20.error|char-offset-range", "error char offset %r outside the source" % co, src)
        else:
            if len(src[:co].encode("utf-8", "surrogatepass")) != rec["at_byte_offset"]:
                finding("C20.error|byte-vs-char", "error byte offset %r does not match char offset %r" % (rec["at_byte_offset"], co), src)
            if (rec["on_line"], rec["at_column"]) != (line_at[co], co - line_start[co]):
                finding("C20.error|line-col", "error at char %d: (%d,%d) expected (%d,%d)" % (
                    co, rec["on_line"], rec["at_column"], line_at[co], co - line_start[co]), src)
        count("errors_checked")
    if prev_stop != n:
        finding("C20.tiling", "tokens end at %d, source has %d code points" % (prev_stop, n), src)
    if lit_cursor != len(lit):
        finding("C20.payload-range", "payload ranges end at %d, buffer has %d bytes" % (lit_cursor, len(lit)), src)
    if toks and TOKEN_TYPES.get(toks[-1][TF.index("token_type")]) != "EOF":
        finding("C20.eof", "last token is not EOF", src)
    if nontrivial:
        count("nontrivial")
        nontrivial_hashes.add(hash(src))
        if len(samples) < 6 and len(src) < 300:
            samples.append({"input": src, "tokens": len(toks), "errors": len(errs), "literal_buffer_bytes": len(lit)})


nontrivial_hashes = set()
samples = []
t0 = time.time()
n_inputs = 0
data = open(inputs_path, "rb").read()
pos = 0
while pos + 5 <= len(data):
    (ln,) = struct.unpack_from("<I", data, pos)
    kind = data[pos + 4]
    src = data[pos + 5:pos + 5 + ln].decode("utf-8")
    pos += 5 + ln
    check(src, kind)
    n_inputs += 1
    # the Python str -> extension boundary: strings that are not valid Unicode (lone surrogates,
    # e.g. from open(..., errors="surrogateescape")). Whenever a result comes back the contract
    # must hold on the string that was passed in.
    if n_inputs % 10 == 0 and len(src) < 2000:
        k = (n_inputs * 7919) % (len(src) + 1)
        check(src[:k] + "\udc80" + src[k:], 0)
        count("lone_surrogate_inputs")


def history_probe(src):
    """Two different strings of equal UTF-8 length, the first one freed before the second is
    created (CPython then usually reuses its address): the result for the second must describe the
    second. Any caching keyed on object identity / length shows up as a contract violation."""
    if " " not in src or not src.isascii() or len(src) > 400:
        return
    variant = src.replace(" ", "\n", 1)
    t = (src + "x")[:-1]
    try:
        _sas_lexer_rust._lex_program_from_str(t)
    except BaseException:
        pass
    del t
    u = (variant + "x")[:-1]
    count("history_probes")
    check(u, 0)


# second pass over a sample of the inputs: mojibake (UTF-8 bytes read as Latin-1: every char is
# <= U+00FF, so CPython stores one byte per char and that buffer happens to be valid UTF-8) and
# history probes
pos = 0
k = 0
while pos + 5 <= len(data):
    (ln,) = struct.unpack_from("<I", data, pos)
    src = data[pos + 5:pos + 5 + ln].decode("utf-8")
    pos += 5 + ln
    k += 1
    if ln > 1500:
        continue
    if k % 3 == 0 and not src.isascii():
        try:
            m = src.encode("utf-8").decode("latin-1")
        except UnicodeError:
            m = None
        if m is not None:
            count("mojibake_inputs")
            check(m, 0)
    if k % 4 == 0:
        history_probe(src)

json.dump({
    "counters": counters,
    "distinct_nontrivial": len(nontrivial_hashes),
    "samples": samples,
    "findings": findings,
    "token_fields": TF,
    "error_fields": EF,
    "decoder": DECODER,
    "enum_sizes": {"TokenType": len(TOKEN_TYPES), "TokenChannel": len(CHANNELS), "ErrorKind": len(ERROR_KINDS)},
    "wall_s": time.time() - t0,
}, open(out_path, "w", encoding="ascii"), ensure_ascii=True)
