"""C20 driver half: build the extension from a scratch copy of the tree, compare generated enum
modules with the committed ones, run the worker under /usr/bin/python3."""
import filecmp
import json
import os
import shutil
import subprocess
import time

PY = "/usr/bin/python3"


def run(drv, tier, seed, scale):
    t0 = time.time()
    root, repo = drv.ROOT, drv.REPO
    inconclusive = []
    violations = []
    out = os.path.join(drv.OUT, "c20")
    scratch = os.path.join(out, "tree")
    os.makedirs(out, exist_ok=True)
    # scratch copy of the working tree (the build script rewrites src/sas_lexer/*.py)
    subprocess.run(["rsync", "-a", "--delete", "--exclude", "/target", "--exclude", "/.git", "--exclude", "/.venv",
                    repo + "/", scratch + "/"], check=False)
    env = dict(drv.ENV)
    env.update({"PYO3_PYTHON": PY, "CARGO_TARGET_DIR": os.path.join(drv.TARGET, "py")})
    p = subprocess.run(["cargo", "build", "-p", "sas-lexer-py", "--features", "pyo3/extension-module", "--offline"],
                       cwd=scratch, env=env, stdout=subprocess.PIPE, stderr=subprocess.STDOUT, text=True)
    if p.returncode != 0:
        drv.log(p.stdout[-3000:])
        inconclusive.append("building the extension module failed")
        return drv.finish("C20", tier, seed, t0, {}, "py", [], {}, inconclusive)
    drv.log("built py extension in %.1fs" % (time.time() - t0))
    so = os.path.join(drv.TARGET, "py", "debug", "lib_sas_lexer_rust.so")
    so_dir = os.path.join(out, "mod")
    os.makedirs(so_dir, exist_ok=True)
    shutil.copyfile(so, os.path.join(so_dir, "_sas_lexer_rust.so"))
    # (1) the committed enum modules are exactly what the build script generates
    enum_files = ["token_type.py", "token_channel.py", "error_kind.py"]
    enum_same = {}
    for f in enum_files:
        a = os.path.join(repo, "src", "sas_lexer", f)
        b = os.path.join(scratch, "src", "sas_lexer", f)
        same = os.path.exists(a) and os.path.exists(b) and filecmp.cmp(a, b, shallow=False)
        enum_same[f] = same
        if not same:
            violations.append(("py", {"sig": "C20.enum-drift|%s" % f, "rule": "C20.enum-drift",
                                      "msg": "src/sas_lexer/%s differs from what crates/sas-lexer-py/build.rs generates from the linked lexer crate" % f,
                                      "count": 1, "inputs": [f], "inputs_hex": [f.encode().hex()]}))
    # (2) inputs from the harness generators
    bins = drv.build_many(["rel"])
    if not bins.get("rel"):
        inconclusive.append("harness build failed")
        return drv.finish("C20", tier, seed, t0, {}, "py", violations, {}, inconclusive)
    n = int((3000 if tier == "quick" else 60000) * scale)
    inputs = os.path.join(out, "inputs.bin")
    subprocess.run([bins["rel"], "gen", "--tier", tier, "--seed", str(seed), "--n", str(n), "--out", inputs], env=drv.ENV, check=False)
    res_path = os.path.join(out, "result.json")
    if os.path.exists(res_path):
        os.remove(res_path)
    pkg = os.path.join(repo, "src", "sas_lexer")
    try:
        p = subprocess.run([PY, os.path.join(root, "pycheck", "worker.py"), so_dir, inputs, pkg, res_path],
                           stdout=subprocess.PIPE, stderr=subprocess.PIPE, text=True, timeout=3600 if tier == "quick" else 4 * 3600,
                           env={"PATH": os.environ.get("PATH", ""), "RUST_BACKTRACE": "0"})
    except subprocess.TimeoutExpired:
        inconclusive.append("python worker watchdog")
        p = None
    if p is not None and p.returncode != 0:
        inconclusive.append("python worker failed: %s" % (p.stderr or "")[-400:])
    res = {}
    if os.path.exists(res_path):
        res = json.load(open(res_path, encoding="utf-8"))
    else:
        inconclusive.append("python worker wrote no result")
    def printable(x):
        return x.encode("utf-8", "backslashreplace").decode("utf-8")

    for sig, f in (res.get("findings") or {}).items():
        violations.append(("py", {"sig": sig, "rule": sig.split("|")[0], "msg": printable(f["msg"]), "count": f["count"],
                                  "inputs": [printable(f["input"])],
                                  "inputs_hex": [f["input"].encode("utf-8", "surrogatepass").hex()]}))
    c = res.get("counters", {})
    summary = {"evaluations": c.get("inputs", 0), "distinct_nontrivial": res.get("distinct_nontrivial", 0),
               "samples": [dict(x, input=printable(x.get("input", ""))) for x in res.get("samples", [])], "counters": c, "tokens_checked": c.get("tokens_checked", 0),
               "errors_checked": c.get("errors_checked", 0), "wall_s": res.get("wall_s"), "build": {"python": PY}}
    extra = {"enum_modules_identical": enum_same, "token_fields": res.get("token_fields"), "error_fields": res.get("error_fields"),
             "decoder_annotation": res.get("decoder"), "enum_sizes": res.get("enum_sizes"),
             "returned": c.get("returned", 0), "exceptions_outside_property": c.get("exceptions", 0),
             "payloads_checked": c.get("payloads_checked", 0)}
    shutil.rmtree(scratch, ignore_errors=True)
    return drv.finish("C20", tier, seed, t0, {"py": summary}, "py", violations, extra, inconclusive)
